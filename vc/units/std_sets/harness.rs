// Kani unit std_sets (C10, C09-coherence carrier, C04): two-pointer merges and binary search of sets.rs.
#![allow(unused, dead_code, non_snake_case)]
use std::cmp::Ordering;

// ---------------------------------------------------------------- stand-ins (trusted)
pub const CAP: usize = 3;
#[derive(Debug, Clone, Copy, PartialEq, Eq)]
pub struct Val(pub u8);                                   // a key value
#[derive(Debug, Clone, Copy, PartialEq, Eq)]
pub struct Elem { pub key: u8, pub id: u8 }               // a lazy set element: its key under keyF and its identity
#[derive(Debug, Clone, Copy, PartialEq, Eq)]
pub struct Thunk<T> { pub e: Elem, _p: std::marker::PhantomData<T> }
pub fn th(e: Elem) -> Thunk<Val> { Thunk { e, _p: std::marker::PhantomData } }
pub struct Error;
pub type Result<T> = std::result::Result<T, Error>;
#[derive(Clone, Copy)]
pub enum BinaryOpType { Lt }
/// total order on keys (its coherence with == on numbers is unit num_core::h_trichotomy)
pub fn evaluate_compare_op(a: &Val, b: &Val, _op: BinaryOpType) -> Result<Ordering> { Ok(a.0.cmp(&b.0)) }
#[derive(Clone, Copy)]
pub struct KeyF;
impl KeyF { pub fn eval(&self, v: Thunk<Val>) -> Result<Val> { Ok(Val(v.e.key)) } }
#[derive(Debug, Clone, Copy)]
pub struct ArrValue { pub items: [Elem; 6], pub n: usize }
pub struct LazyIter { a: ArrValue, i: usize }
impl Iterator for LazyIter { type Item = Thunk<Val>; fn next(&mut self) -> Option<Thunk<Val>> { if self.i < self.a.n { self.i += 1; Some(th(self.a.items[self.i - 1])) } else { None } } }
impl ArrValue {
    pub fn len(&self) -> usize { self.n }
    pub fn get_lazy(&self, i: usize) -> Option<Thunk<Val>> { if i < self.n { Some(th(self.items[i])) } else { None } }
    pub fn iter_lazy(&self) -> LazyIter { LazyIter { a: *self, i: 0 } }
    pub fn lazy(v: Vec<Thunk<Val>>) -> ArrValue { let mut items = [Elem { key: 0, id: 0 }; 6]; let mut i = 0; while i < v.len { items[i] = v.buf[i].e; i += 1; } ArrValue { items, n: v.len } }
}
/// fixed-capacity stand-in for std Vec (new/push): capacity 6 = |a| + |b|
pub struct Vec<T: Copy> { buf: [T; 6], len: usize }
impl Vec<Thunk<Val>> {
    pub fn new() -> Self { Vec { buf: [th(Elem { key: 0, id: 0 }); 6], len: 0 } }
    pub fn push(&mut self, v: Thunk<Val>) { assert!(self.len < 6, "obligation: set operation emits at most |a|+|b| elements"); self.buf[self.len] = v; self.len += 1; }
}

// ---------------------------------------------------------------- extracted real code
//@item crates/jrsonnet-stdlib/src/sets.rs :: fn builtin_set_member ;; keep-pub
//@item crates/jrsonnet-stdlib/src/sets.rs :: fn builtin_set_inter ;; keep-pub
//@item crates/jrsonnet-stdlib/src/sets.rs :: fn builtin_set_diff ;; keep-pub
//@item crates/jrsonnet-stdlib/src/sets.rs :: fn builtin_set_union ;; keep-pub

#[cfg(kani)]
mod harness {
    use super::*;
    /// a set of <= CAP elements: strictly ascending keys (< 8), identities tagged by origin
    fn any_set(tag: u8, cap: usize) -> ArrValue {
        let n: usize = if cap >= 10 { cap - 10 } else { let n: usize = kani::any(); kani::assume(n <= cap); n };   // cap = 10+n: exactly n elements
        let mut items = [Elem { key: 0, id: 0 }; 6];
        let mut i = 0;
        while i < CAP {
            let k: u8 = kani::any(); kani::assume(k < 8);
            items[i] = Elem { key: k, id: tag + i as u8 };
            if i > 0 && i < n { kani::assume(items[i - 1].key < k); }
            i += 1;
        }
        ArrValue { items, n }
    }
    fn find(s: &ArrValue, k: u8) -> Option<Elem> { let mut i = 0; let mut r = None; while i < s.n { if s.items[i].key == k { r = Some(s.items[i]); } i += 1; } r }
    fn sorted(s: &ArrValue) -> bool { let mut i = 1; let mut ok = true; while i < s.n { if s.items[i - 1].key >= s.items[i].key { ok = false; } i += 1; } ok }
    fn ok<T>(r: Result<T>) -> T { match r { Ok(v) => v, Err(_) => panic!("obligation: set operation over total keys cannot fail") } }

    fn check_union(cap: usize) { check_union2(cap, cap) }
    fn check_union2(cap: usize, capb: usize) {
        let (a, b) = (any_set(10, cap), any_set(20, capb));
        let r = ok(builtin_set_union(a, b, KeyF));
        assert!(sorted(&r), "obligation: setUnion result is a set (strictly ascending keys)");
        let k: u8 = kani::any(); kani::assume(k < 8);   // for all keys
        {
            let want = match find(&a, k) { Some(e) => Some(e), None => find(&b, k) };     // on equal keys the element of `a` is kept
            assert!(find(&r, k) == want, "obligation: setUnion = union by key, left operand wins ties");
        }
        kani::cover!(true);
    }

    fn check_inter(cap: usize) {
        let (a, b) = (any_set(10, cap), any_set(20, cap));
        let r = ok(builtin_set_inter(a, b, KeyF));
        assert!(sorted(&r), "obligation: setInter result is a set");
        let k: u8 = kani::any(); kani::assume(k < 8);   // for all keys
        {
            let want = if find(&b, k).is_some() { find(&a, k) } else { None };
            assert!(find(&r, k) == want, "obligation: setInter = elements of a whose key occurs in b");
        }
        kani::cover!(r.n == 2);
        kani::cover!(r.n == 0 && a.n == cap && b.n == cap);
    }

    fn check_diff(cap: usize) {
        let (a, b) = (any_set(10, cap), any_set(20, cap));
        let r = ok(builtin_set_diff(a, b, KeyF));
        assert!(sorted(&r), "obligation: setDiff result is a set");
        let k: u8 = kani::any(); kani::assume(k < 8);   // for all keys
        {
            let want = if find(&b, k).is_none() { find(&a, k) } else { None };
            assert!(find(&r, k) == want, "obligation: setDiff = elements of a whose key does not occur in b");
        }
        kani::cover!(r.n == cap && b.n == cap);
        kani::cover!(r.n == 0 && a.n == 2);
    }

    /// binary search over a set of <= 6 elements
    #[kani::proof]
    #[kani::unwind(8)]
    fn h_member() {
        let n: usize = kani::any(); kani::assume(n <= 6);
        let mut items = [Elem { key: 0, id: 0 }; 6];
        let mut i = 0;
        while i < 6 { let k: u8 = kani::any(); kani::assume(k < 16); items[i] = Elem { key: k, id: i as u8 }; if i > 0 && i < n { kani::assume(items[i - 1].key < k); } i += 1; }
        let s = ArrValue { items, n };
        let x: u8 = kani::any(); kani::assume(x < 16);
        let r = ok(builtin_set_member(th(Elem { key: x, id: 99 }), s, KeyF));
        assert!(r == find(&s, x).is_some(), "obligation: setMember(x, s) <=> some element of s has the key of x");
        kani::cover!(r && n == 6);
        kani::cover!(!r && n == 6);
    }
    #[kani::proof]
    #[kani::unwind(6)]
    fn h_union_2() { check_union(2); }
    #[kani::proof]
    #[kani::unwind(8)]
    fn h_union_3() { check_union(3); }
    #[kani::proof]
    #[kani::unwind(6)]
    fn h_inter_2() { check_inter(2); }
    #[kani::proof]
    #[kani::unwind(8)]
    fn h_inter_3() { check_inter(3); }
    #[kani::proof]
    #[kani::unwind(6)]
    fn h_diff_2() { check_diff(2); }
    #[kani::proof]
    #[kani::unwind(8)]
    fn h_diff_3() { check_diff(3); }
}
