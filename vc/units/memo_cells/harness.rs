// Kani unit memo_cells (C03, C08, C04): the memo cells behind call-by-need.
//   MemoizedClosureThunk::get  -- local bindings / arguments
//   ExprArray::{get,get_lazy}, MappedArray::{get,get_lazy} -- per-element caches
// Contract on every cell: the underlying computation runs AT MOST ONCE; a re-entrant read while
// Pending is InfiniteRecursionDetected; a cached error is re-raised without recomputation.
#![allow(unused, dead_code, static_mut_refs)]
use std::cell::RefCell;
use std::mem::replace;
use std::rc::Rc;

// ---------------------------------------------------------------- stand-ins (trusted)
pub trait Trace {}
impl<T: ?Sized> Trace for T {}
pub type Cc<T> = Rc<T>;                      // reference counting without cycle collection
#[derive(Debug, Clone, Copy, PartialEq, Eq)]
pub struct Val(pub u8);
#[derive(Debug, Clone, Copy, PartialEq, Eq)]
pub enum ErrorKind { InfiniteRecursionDetected, Runtime(u8) }
pub use ErrorKind::InfiniteRecursionDetected;
#[derive(Debug, Clone, Copy, PartialEq, Eq)]
pub struct Error(pub ErrorKind);
impl From<ErrorKind> for Error { fn from(e: ErrorKind) -> Self { Error(e) } }
pub type Result<T, E = Error> = std::result::Result<T, E>;
#[derive(Debug, Clone, Copy)]
pub struct Context;
#[derive(Debug, Clone, Copy)]
pub struct Expr(pub u8);
pub trait ThunkValue: Trace { type Output; fn get(&self) -> Result<Self::Output>; }
pub struct Thunk<T>(pub Rc<dyn ThunkValue<Output = T>>);
impl<T> Clone for Thunk<T> { fn clone(&self) -> Self { Thunk(self.0.clone()) } }
struct Evaluated<T>(T);
impl<T: Clone> ThunkValue for Evaluated<T> { type Output = T; fn get(&self) -> Result<T> { Ok(self.0.clone()) } }
struct Errored<T>(Error, std::marker::PhantomData<T>);
impl<T> ThunkValue for Errored<T> { type Output = T; fn get(&self) -> Result<T> { Err(self.0.clone()) } }
impl<T: 'static> Thunk<T> {
    pub fn new<V: ThunkValue<Output = T> + 'static>(v: V) -> Self { Thunk(Rc::new(v)) }
    pub fn evaluated(v: T) -> Self where T: Clone { Thunk(Rc::new(Evaluated(v))) }
    pub fn errored(e: Error) -> Self { Thunk(Rc::new(Errored(e, std::marker::PhantomData))) }
    pub fn evaluate(&self) -> Result<T> { self.0.get() }
}

// instrumentation shared by the stand-in computations
pub const N: usize = 3;
static mut RUNS: [u8; N] = [0; N];            // how often the computation of element i ran
static mut OUTCOME: [Result<Val>; N] = [Ok(Val(0)); N];
static mut REENTER: [bool; N] = [false; N];   // element i reads itself while being computed
static mut REENTRY_RESULT: [Option<Result<Option<Val>>>; N] = [None; N];
static mut EXPR_ARR: Option<ExprArray> = None;
static mut MAPPED_ARR: Option<MappedArray> = None;

/// stand-in for crate::evaluate(ctx, expr)
pub fn evaluate(_ctx: Context, e: &Expr) -> Result<Val> {
    let i = e.0 as usize;
    unsafe {
        RUNS[i] += 1;
        if REENTER[i] { if let Some(a) = &EXPR_ARR { REENTRY_RESULT[i] = Some(a.get(i)); } }
        OUTCOME[i]
    }
}
/// stand-in inner array for MappedArray: element i is Val(i), in bounds for i < len
#[derive(Debug, Clone, Copy)]
pub struct ArrValue { pub len: usize }
impl ArrValue {
    pub fn len(&self) -> usize { self.len }
    pub fn get(&self, i: usize) -> Result<Option<Val>> { Ok(if i < self.len { Some(Val(i as u8)) } else { None }) }
}
/// stand-in for NativeFn mappers
#[derive(Debug, Clone, Copy)]
pub struct PlainFn;
impl PlainFn { pub fn call(&self, v: Val) -> Result<Val> { mapper_body(v.0 as usize) } }
#[derive(Debug, Clone, Copy)]
pub struct IndexFn;
impl IndexFn { pub fn call(&self, idx: u32, v: Val) -> Result<Val> { assert!(idx as usize == v.0 as usize, "obligation: mapWithIndex passes the element's own index"); mapper_body(idx as usize) } }
fn mapper_body(i: usize) -> Result<Val> {
    unsafe {
        RUNS[i] += 1;
        if REENTER[i] { if let Some(a) = &MAPPED_ARR { REENTRY_RESULT[i] = Some(a.get(i)); } }
        OUTCOME[i]
    }
}
#[derive(Debug, Clone, Copy)]
pub enum ArrayMapper { Plain(PlainFn), WithIndex(IndexFn) }

// ---------------------------------------------------------------- extracted real code
//@item crates/jrsonnet-evaluator/src/val.rs :: enum MemoizedClusureThunkInner
//@item crates/jrsonnet-evaluator/src/val.rs :: struct MemoizedClosureThunk ;; keep-pub
//@item crates/jrsonnet-evaluator/src/val.rs :: impl<D: Trace, T: Trace> MemoizedClosureThunk<D, T> ;; keep-pub
//@item crates/jrsonnet-evaluator/src/val.rs :: impl<D: Trace, T: Trace + Clone> ThunkValue for MemoizedClosureThunk<D, T>
//@item crates/jrsonnet-evaluator/src/arr/spec.rs :: enum ArrayThunk ;; std-derives
//@item crates/jrsonnet-evaluator/src/arr/spec.rs :: struct ExprArray ;; std-derives keep-pub
//@item crates/jrsonnet-evaluator/src/arr/spec.rs :: impl ExprArray ;; keep-pub
impl ExprArray {
//@item crates/jrsonnet-evaluator/src/arr/spec.rs :: impl ArrayLike for ExprArray > fn len
//@item crates/jrsonnet-evaluator/src/arr/spec.rs :: impl ArrayLike for ExprArray > fn get
//@item crates/jrsonnet-evaluator/src/arr/spec.rs :: impl ArrayLike for ExprArray > fn get_lazy
//@item crates/jrsonnet-evaluator/src/arr/spec.rs :: impl ArrayLike for ExprArray > fn get_cheap
}
//@item crates/jrsonnet-evaluator/src/arr/spec.rs :: struct MappedArray ;; std-derives keep-pub
//@item crates/jrsonnet-evaluator/src/arr/spec.rs :: impl MappedArray ;; keep-pub
impl MappedArray {
//@item crates/jrsonnet-evaluator/src/arr/spec.rs :: impl ArrayLike for MappedArray > fn len
//@item crates/jrsonnet-evaluator/src/arr/spec.rs :: impl ArrayLike for MappedArray > fn get
//@item crates/jrsonnet-evaluator/src/arr/spec.rs :: impl ArrayLike for MappedArray > fn get_lazy
//@item crates/jrsonnet-evaluator/src/arr/spec.rs :: impl ArrayLike for MappedArray > fn get_cheap
}

// ---------------------------------------------------------------- harnesses
#[cfg(kani)]
mod harness {
    use super::*;

    fn any_outcome() -> Result<Val> { if kani::any() { Ok(Val(kani::any())) } else { Err(Error(ErrorKind::Runtime(kani::any()))) } }

    // ---- MemoizedClosureThunk
    static mut T_RUNS: u8 = 0;
    static mut T_OUT: Result<u8> = Ok(0);
    static mut T_REENTER: bool = false;
    static mut T_SELF: Option<Rc<MemoizedClosureThunk<u8, u8>>> = None;
    static mut T_REENTRY: Option<Result<u8>> = None;
    fn thunk_body(env: u8) -> Result<u8> {
        unsafe {
            T_RUNS += 1;
            assert!(env == 42, "obligation: the closure receives the captured environment");
            if T_REENTER { if let Some(s) = &T_SELF { T_REENTRY = Some(s.get()); } }
            T_OUT
        }
    }

    /// any number of reads (here 3, the cell has 4 states and no counter): computation runs exactly once, every
    /// read returns the first outcome, a re-entrant read is InfiniteRecursionDetected
    #[kani::proof]
    fn h_thunk() {
        unsafe {
            T_OUT = if kani::any() { Ok(kani::any()) } else { Err(Error(ErrorKind::Runtime(kani::any()))) };
            T_REENTER = kani::any();
            let t = Rc::new(MemoizedClosureThunk::new(42u8, thunk_body as fn(u8) -> Result<u8>));
            T_SELF = Some(t.clone());
            assert!(T_RUNS == 0, "obligation: creating a thunk evaluates nothing");
            let r1 = t.get(); let r2 = t.get(); let r3 = t.get();
            assert!(T_RUNS == 1, "obligation: a shared binding is evaluated at most once");
            assert!(r1 == T_OUT && r2 == T_OUT && r3 == T_OUT, "obligation: every read returns the (cached) first outcome, errors included");
            if T_REENTER { assert!(T_REENTRY == Some(Err(Error(InfiniteRecursionDetected))), "obligation: a value depending on itself is reported as infinite recursion"); }
            kani::cover!(T_REENTER && T_OUT.is_err());
            kani::cover!(!T_REENTER && T_OUT.is_ok());
        }
    }

    fn setup(n: usize) { unsafe { let mut i = 0; while i < N { RUNS[i] = 0; OUTCOME[i] = any_outcome(); REENTER[i] = kani::any(); REENTRY_RESULT[i] = None; i += 1; } } }

    /// ExprArray: element i evaluated at most once over any mix of get / get_lazy+evaluate; out of bounds -> None without evaluation
    fn check_expr_array(i: usize) {
        let n: usize = N;   // concrete length: keeps the allocator concrete; the probed index is symbolic
        setup(n);
        let src: Vec<Expr> = vec![Expr(0), Expr(1), Expr(2)];
        let arr = ExprArray::new(Context, Rc::new(src));
        unsafe { EXPR_ARR = Some(arr.clone()); }
        assert!(arr.len() == n, "obligation: literal array length");
        // a lazy handle taken BEFORE the first evaluation, then a direct read, then the lazy handle, then a direct read
        let lazy = arr.get_lazy(i);
        unsafe { assert!(RUNS[0] == 0 && RUNS[1] == 0 && RUNS[2] == 0, "obligation: taking a lazy element evaluates nothing"); }
        let r1 = arr.get(i);
        if i >= n {
            assert!(lazy.is_none() && r1 == Ok(None) && arr.get_cheap(i).is_none(), "obligation: index at or beyond the length yields None");
            unsafe { assert!(RUNS[0] == 0 && RUNS[1] == 0 && RUNS[2] == 0, "obligation: out-of-bounds read evaluates nothing"); }
        } else {
            let want = unsafe { OUTCOME[i] };
            let r2 = lazy.as_ref().unwrap().evaluate();
            let r3 = arr.get(i);
            let r4 = arr.get_lazy(i).unwrap().evaluate();
            unsafe {
                assert!(RUNS[i] == 1, "obligation: an array element is evaluated at most once, through the array and through lazy handles alike");
                let mut j = 0; while j < N { if j != i { assert!(RUNS[j] == 0, "obligation: elements that are never read are never evaluated"); } j += 1; }
                assert!(r1 == want.map(Some) && r2 == want && r3 == want.map(Some) && r4 == want, "obligation: every read returns the first outcome");
                if REENTER[i] { assert!(REENTRY_RESULT[i] == Some(Err(Error(InfiniteRecursionDetected))), "obligation: self-dependent element is infinite recursion"); }
            }
        }
        kani::cover!(i >= n || unsafe { REENTER[if i < N { i } else { 0 }] });
    }

    /// MappedArray (std.map / mapWithIndex / makeArray): mapper runs at most once per element
    fn check_mapped_array(i: usize) {
        let n: usize = N;
        setup(n);
        let mapper = if kani::any() { ArrayMapper::Plain(PlainFn) } else { ArrayMapper::WithIndex(IndexFn) };
        let arr = MappedArray::new(ArrValue { len: n }, mapper);
        unsafe { MAPPED_ARR = Some(arr.clone()); }
        assert!(arr.len() == n, "obligation: mapped array has the length of its source");
        let lazy = arr.get_lazy(i);
        let r1 = arr.get(i);
        if i >= n {
            assert!(lazy.is_none() && r1 == Ok(None) && arr.get_cheap(i).is_none(), "obligation: index at or beyond the length yields None");
            unsafe { assert!(RUNS[0] == 0 && RUNS[1] == 0 && RUNS[2] == 0, "obligation: out-of-bounds read evaluates nothing"); }
        } else {
            let want = unsafe { OUTCOME[i] };
            let r2 = lazy.as_ref().unwrap().evaluate();
            let r3 = arr.get(i);
            unsafe {
                assert!(RUNS[i] == 1, "obligation: the mapping function runs at most once per element");
                let mut j = 0; while j < N { if j != i { assert!(RUNS[j] == 0, "obligation: unread elements are not mapped"); } j += 1; }
                assert!(r1 == want.map(Some) && r2 == want && r3 == want.map(Some), "obligation: every read returns the first outcome");
                if REENTER[i] { assert!(REENTRY_RESULT[i] == Some(Err(Error(InfiniteRecursionDetected))), "obligation: self-dependent element is infinite recursion"); }
            }
        }
        kani::cover!(i >= n || matches!(mapper, ArrayMapper::WithIndex(_)));
    }
    #[kani::proof]
    #[kani::unwind(5)]
    fn h_expr_array_i0() { check_expr_array(0); }
    #[kani::proof]
    #[kani::unwind(5)]
    fn h_mapped_array_i0() { check_mapped_array(0); }
    #[kani::proof]
    #[kani::unwind(5)]
    fn h_expr_array_i1() { check_expr_array(1); }
    #[kani::proof]
    #[kani::unwind(5)]
    fn h_mapped_array_i1() { check_mapped_array(1); }
    #[kani::proof]
    #[kani::unwind(5)]
    fn h_expr_array_i2() { check_expr_array(2); }
    #[kani::proof]
    #[kani::unwind(5)]
    fn h_mapped_array_i2() { check_mapped_array(2); }
    #[kani::proof]
    #[kani::unwind(5)]
    fn h_expr_array_i3() { check_expr_array(3); }
    #[kani::proof]
    #[kani::unwind(5)]
    fn h_mapped_array_i3() { check_mapped_array(3); }
    #[kani::proof]
    #[kani::unwind(5)]
    fn h_expr_array_i4() { check_expr_array(4); }
    #[kani::proof]
    #[kani::unwind(5)]
    fn h_mapped_array_i4() { check_mapped_array(4); }
}
