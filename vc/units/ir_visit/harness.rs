// Kani unit ir_visit (C15): the AST visitor of jrsonnet-ir (crates/jrsonnet-ir/src/visit.rs) that `jrsonnet-deps` uses to discover
// imports statically.  Contract of every visit_* function: each direct child expression of the node is handed to Visitor::visit_expr
// (so the traversal reaches every sub-expression and no import can hide), nothing else is, and an `import "lit"` node reports its
// path with the right kind flag.  Recursion is cut at the trait method (the recording visitor does not descend).
#![allow(unused, dead_code, static_mut_refs)]
use std::{fmt::{self, Debug, Display}, ops::Deref, rc::Rc};

// ---------------------------------------------------------------- stand-ins (trusted)
pub type IStr = &'static str;
#[derive(Debug, Clone, PartialEq)] pub struct Span;
#[derive(Debug, Clone, PartialEq)] pub struct FunctionSignature;
pub trait Acyclic {} impl<T> Acyclic for T {}

// ---------------------------------------------------------------- extracted real code: the AST types ...
//@item crates/jrsonnet-ir/src/expr.rs :: enum FieldName ;; keep-pub
//@item crates/jrsonnet-ir/src/expr.rs :: enum Visibility ;; keep-pub
//@item crates/jrsonnet-ir/src/expr.rs :: struct AssertStmt ;; keep-pub
//@item crates/jrsonnet-ir/src/expr.rs :: struct FieldMember ;; keep-pub
//@item crates/jrsonnet-ir/src/expr.rs :: enum UnaryOpType ;; keep-pub
//@item crates/jrsonnet-ir/src/expr.rs :: enum BinaryOpType ;; keep-pub
//@item crates/jrsonnet-ir/src/expr.rs :: struct ExprParam ;; keep-pub
//@item crates/jrsonnet-ir/src/expr.rs :: struct ExprParams ;; keep-pub
//@item crates/jrsonnet-ir/src/expr.rs :: struct ArgsDesc ;; keep-pub
//@item crates/jrsonnet-ir/src/expr.rs :: enum Destruct ;; keep-pub
//@item crates/jrsonnet-ir/src/expr.rs :: enum BindSpec ;; keep-pub
//@item crates/jrsonnet-ir/src/expr.rs :: struct IfSpecData ;; keep-pub
//@item crates/jrsonnet-ir/src/expr.rs :: struct ForSpecData ;; keep-pub
//@item crates/jrsonnet-ir/src/expr.rs :: enum CompSpec ;; keep-pub
//@item crates/jrsonnet-ir/src/expr.rs :: struct ObjComp ;; keep-pub
//@item crates/jrsonnet-ir/src/expr.rs :: struct ObjMembers ;; keep-pub
//@item crates/jrsonnet-ir/src/expr.rs :: enum ObjBody ;; keep-pub
//@item crates/jrsonnet-ir/src/expr.rs :: enum LiteralType ;; keep-pub
//@item crates/jrsonnet-ir/src/expr.rs :: struct SliceDesc ;; keep-pub
//@item crates/jrsonnet-ir/src/expr.rs :: struct AssertExpr ;; keep-pub
//@item crates/jrsonnet-ir/src/expr.rs :: struct BinaryOp ;; keep-pub
//@item crates/jrsonnet-ir/src/expr.rs :: enum ImportKind ;; keep-pub
//@item crates/jrsonnet-ir/src/expr.rs :: struct IfElse ;; keep-pub
//@item crates/jrsonnet-ir/src/expr.rs :: struct Slice ;; keep-pub
//@item crates/jrsonnet-ir/src/expr.rs :: enum Expr ;; keep-pub
//@item crates/jrsonnet-ir/src/expr.rs :: struct IndexPart ;; keep-pub
//@item crates/jrsonnet-ir/src/expr.rs :: struct Spanned ;; keep-pub
//@item crates/jrsonnet-ir/src/expr.rs :: impl<T: Acyclic> Deref for Spanned<T>
//@item crates/jrsonnet-ir/src/expr.rs :: impl<T: Acyclic> Spanned<T> ;; keep-pub
// ---------------------------------------------------------------- ... and the visitor
//@item crates/jrsonnet-ir/src/visit.rs :: trait Visitor ;; keep-pub
//@item crates/jrsonnet-ir/src/visit.rs :: fn visit_destruct ;; keep-pub
//@item crates/jrsonnet-ir/src/visit.rs :: fn visit_if_spec ;; keep-pub
//@item crates/jrsonnet-ir/src/visit.rs :: fn visit_comp_spec ;; keep-pub
//@item crates/jrsonnet-ir/src/visit.rs :: fn visit_params ;; keep-pub
//@item crates/jrsonnet-ir/src/visit.rs :: fn visit_bind_spec ;; keep-pub
//@item crates/jrsonnet-ir/src/visit.rs :: fn visit_field_member ;; keep-pub
//@item crates/jrsonnet-ir/src/visit.rs :: fn visit_obj_body ;; keep-pub
//@item crates/jrsonnet-ir/src/visit.rs :: fn visit_assert_stmt ;; keep-pub
//@item crates/jrsonnet-ir/src/visit.rs :: fn visit_expr ;; keep-pub

#[cfg(kani)]
mod harness {
    use super::*;
    /// recording visitor: notes which nodes it is handed, does not descend (the callee's contract is this same obligation one level down)
    struct RecV { seen: [usize; 12], n: usize, imports: [(bool, &'static str); 2], ni: usize }
    impl RecV { fn new() -> Self { RecV { seen: [0; 12], n: 0, imports: [(false, ""); 2], ni: 0 } } }
    impl Visitor for RecV {
        fn visit_expr(&mut self, e: &Expr) { if self.n < 12 { self.seen[self.n] = e as *const Expr as usize; } self.n += 1; }
        fn visit_import(&mut self, as_expression: bool, value: IStr) { if self.ni < 2 { self.imports[self.ni] = (as_expression, value); } self.ni += 1; }
    }
    fn a(e: &Expr) -> usize { e as *const Expr as usize }
    fn leaf(k: u32) -> Expr { Expr::Num(k as f64) }
    fn sp<T>(v: T) -> Spanned<T> { Spanned::new(v, Span) }
    fn params1(default: Option<Rc<Expr>>) -> ExprParams { ExprParams { exprs: Rc::new(vec![ExprParam { destruct: Destruct::Full("p"), default }]), signature: FunctionSignature, binds_len: 1 } }
    /// `want` = addresses of the direct children: every one visited, nothing else visited
    fn exact(r: &RecV, want: &[usize]) -> bool {
        if r.n != want.len() || r.n > 12 { return false; }
        let mut i = 0;
        while i < want.len() { let mut hit = 0; let mut j = 0; while j < r.n { if r.seen[j] == want[i] { hit += 1; } j += 1; } if hit != 1 { return false; } i += 1; }
        true
    }

    #[kani::proof] #[kani::unwind(6)]
    fn h_expr_leaves_unary_binary() {
        for e in [Expr::Literal(LiteralType::Null), Expr::Str("s"), leaf(1), Expr::Var(sp("x"))] { let mut r = RecV::new(); visit_expr(&mut r, &e); assert!(r.n == 0 && r.ni == 0, "obligation: leaves have no children"); std::mem::forget(e); }
        let e = Expr::UnaryOp(UnaryOpType::Not, Box::new(leaf(1)));
        let mut r = RecV::new(); visit_expr(&mut r, &e);
        if let Expr::UnaryOp(_, c) = &e { assert!(exact(&r, &[a(c)]), "obligation: every direct child expression is visited (exactly the children)"); }
        std::mem::forget(e);
        let e = Expr::BinaryOp(Box::new(BinaryOp { lhs: leaf(1), op: BinaryOpType::Add, rhs: leaf(2) }));
        let mut r = RecV::new(); visit_expr(&mut r, &e);
        if let Expr::BinaryOp(b) = &e { assert!(exact(&r, &[a(&b.lhs), a(&b.rhs)]), "obligation: every direct child expression is visited (exactly the children)"); }
        std::mem::forget(e);
    }
    #[kani::proof] #[kani::unwind(6)]
    fn h_expr_arr_arrcomp() {
        let e = Expr::Arr(Rc::new(vec![leaf(1), leaf(2), leaf(3)]));
        let mut r = RecV::new(); visit_expr(&mut r, &e);
        if let Expr::Arr(v) = &e { assert!(exact(&r, &[a(&v[0]), a(&v[1]), a(&v[2])]), "obligation: every direct child expression is visited (exactly the children)"); }
        std::mem::forget(e);
        let e = Expr::ArrComp(Rc::new(leaf(1)), vec![CompSpec::ForSpec(ForSpecData { destruct: Destruct::Full("x"), over: leaf(2) }), CompSpec::IfSpec(IfSpecData { span: Span, cond: leaf(3) })]);
        let mut r = RecV::new(); visit_expr(&mut r, &e);
        if let Expr::ArrComp(b, cs) = &e { if let (CompSpec::ForSpec(f), CompSpec::IfSpec(i)) = (&cs[0], &cs[1]) { assert!(exact(&r, &[a(b), a(&f.over), a(&i.cond)]), "obligation: every direct child expression is visited (exactly the children)"); } }
        std::mem::forget(e);
    }
    #[kani::proof] #[kani::unwind(6)]
    fn h_expr_assert_local_error() {
        let e = Expr::AssertExpr(Rc::new(AssertExpr { assert: AssertStmt(sp(leaf(1)), Some(sp(leaf(2)))), rest: leaf(3) }));
        let mut r = RecV::new(); visit_expr(&mut r, &e);
        if let Expr::AssertExpr(x) = &e { assert!(exact(&r, &[a(&x.assert.0), a(x.assert.1.as_ref().unwrap()), a(&x.rest)]), "obligation: every direct child expression is visited (exactly the children)"); }
        std::mem::forget(e);
        let e = Expr::LocalExpr(vec![BindSpec::Field { into: Destruct::Full("x"), value: Rc::new(leaf(1)) }, BindSpec::Function { name: "f", params: params1(Some(Rc::new(leaf(2)))), value: Rc::new(leaf(3)) }], Box::new(leaf(4)));
        let mut r = RecV::new(); visit_expr(&mut r, &e);
        if let Expr::LocalExpr(bs, body) = &e { if let (BindSpec::Field { value: v1, .. }, BindSpec::Function { params, value: v3, .. }) = (&bs[0], &bs[1]) {
            assert!(exact(&r, &[a(v1), a(params.exprs[0].default.as_ref().unwrap()), a(v3), a(body)]), "obligation: every direct child expression is visited (exactly the children)"); } }
        std::mem::forget(e);
        let e = Expr::ErrorStmt(Span, Box::new(leaf(1)));
        let mut r = RecV::new(); visit_expr(&mut r, &e);
        if let Expr::ErrorStmt(_, c) = &e { assert!(exact(&r, &[a(c)]), "obligation: every direct child expression is visited (exactly the children)"); }
        std::mem::forget(e);
    }
    #[kani::proof] #[kani::unwind(16)]
    fn h_expr_import() {
        // import "lit" / importstr / importbin: the path is reported once, flagged as code only for `import`
        let k: u8 = kani::any(); kani::assume(k < 3);
        let kind = match k { 0 => ImportKind::Normal, 1 => ImportKind::Str, _ => ImportKind::Bin };
        let e = Expr::Import(sp(kind), Box::new(Expr::Str("lib.libsonnet")));
        let mut r = RecV::new(); visit_expr(&mut r, &e);
        assert!(r.ni == 1 && r.imports[0].1 == "lib.libsonnet" && r.imports[0].0 == (k == 0), "obligation: an import of a literal path is reported exactly once, as code iff it is a plain `import`");
        if let Expr::Import(_, c) = &e { assert!(exact(&r, &[a(c)]), "obligation: every direct child expression is visited (exactly the children)"); }
        std::mem::forget(e);
        // computed path: nothing to report statically, but the path expression is still traversed
        let e = Expr::Import(sp(ImportKind::Normal), Box::new(leaf(1)));
        let mut r = RecV::new(); visit_expr(&mut r, &e);
        assert!(r.ni == 0, "obligation: a non-literal import path reports no static import");
        if let Expr::Import(_, c) = &e { assert!(exact(&r, &[a(c)]), "obligation: every direct child expression is visited (exactly the children)"); }
        std::mem::forget(e);
        kani::cover!(k == 2);
    }
    #[kani::proof] #[kani::unwind(6)]
    fn h_expr_apply_index_function() {
        let e = Expr::Apply(Box::new(leaf(1)), sp(ArgsDesc { unnamed: vec![Rc::new(leaf(2)), Rc::new(leaf(3))], named: vec![("n", Rc::new(leaf(4)))] }), false);
        let mut r = RecV::new(); visit_expr(&mut r, &e);
        if let Expr::Apply(f, args, _) = &e { assert!(exact(&r, &[a(f), a(&args.unnamed[0]), a(&args.unnamed[1]), a(&args.named[0].1)]), "obligation: every direct child expression is visited (exactly the children)"); }
        std::mem::forget(e);
        let e = Expr::Index { indexable: Box::new(leaf(1)), parts: vec![IndexPart { span: Span, value: leaf(2) }, IndexPart { span: Span, value: leaf(3) }] };
        let mut r = RecV::new(); visit_expr(&mut r, &e);
        if let Expr::Index { indexable, parts } = &e { assert!(exact(&r, &[a(indexable), a(&parts[0].value), a(&parts[1].value)]), "obligation: every direct child expression is visited (exactly the children)"); }
        std::mem::forget(e);
        let e = Expr::Function(params1(Some(Rc::new(leaf(1)))), Rc::new(leaf(2)));
        let mut r = RecV::new(); visit_expr(&mut r, &e);
        if let Expr::Function(p, body) = &e { assert!(exact(&r, &[a(p.exprs[0].default.as_ref().unwrap()), a(body)]), "obligation: every direct child expression is visited (exactly the children)"); }
        std::mem::forget(e);
    }
    #[kani::proof] #[kani::unwind(6)]
    fn h_expr_if_slice() {
        let with_else: bool = kani::any();
        let e = Expr::IfElse(Box::new(IfElse { cond: IfSpecData { span: Span, cond: leaf(1) }, cond_then: leaf(2), cond_else: if with_else { Some(leaf(3)) } else { None } }));
        let mut r = RecV::new(); visit_expr(&mut r, &e);
        if let Expr::IfElse(x) = &e { match &x.cond_else { Some(el) => assert!(exact(&r, &[a(&x.cond.cond), a(&x.cond_then), a(el)]), "obligation: every direct child expression is visited (exactly the children)"), None => assert!(exact(&r, &[a(&x.cond.cond), a(&x.cond_then)]), "obligation: every direct child expression is visited (exactly the children)") } }
        std::mem::forget(e);
        let e = Expr::Slice(Box::new(Slice { value: leaf(1), slice: SliceDesc { start: Some(sp(leaf(2))), end: Some(sp(leaf(3))), step: Some(sp(leaf(4))) } }));
        let mut r = RecV::new(); visit_expr(&mut r, &e);
        if let Expr::Slice(x) = &e { assert!(exact(&r, &[a(&x.value), a(x.slice.start.as_ref().unwrap()), a(x.slice.end.as_ref().unwrap()), a(x.slice.step.as_ref().unwrap())]), "obligation: every direct child expression is visited (exactly the children)"); }
        std::mem::forget(e);
        kani::cover!(with_else); kani::cover!(!with_else);
    }
    fn field(name_dyn: bool, k: u32, with_params: bool) -> FieldMember {
        FieldMember { name: sp(if name_dyn { FieldName::Dyn(leaf(k)) } else { FieldName::Fixed("f") }), plus: false, params: if with_params { Some(params1(Some(Rc::new(leaf(k + 1))))) } else { None }, visibility: Visibility::Normal, value: Rc::new(leaf(k + 2)) }
    }
    #[kani::proof] #[kani::unwind(9)]
    fn h_obj_member_list() {
        let body = ObjBody::MemberList(ObjMembers { locals: Rc::new(vec![BindSpec::Field { into: Destruct::Full("l"), value: Rc::new(leaf(1)) }]), asserts: Rc::new(vec![AssertStmt(sp(leaf(2)), None)]), fields: vec![field(true, 3, true), field(false, 6, false)] });
        let e = Expr::ObjExtend(Rc::new(leaf(0)), body);
        let mut r = RecV::new(); visit_expr(&mut r, &e);
        if let Expr::ObjExtend(base, ObjBody::MemberList(m)) = &e { if let (BindSpec::Field { value: l, .. }, FieldName::Dyn(n0)) = (&m.locals[0], &*m.fields[0].name) {
            assert!(exact(&r, &[a(base), a(l), a(&m.asserts[0].0), a(n0), a(m.fields[0].params.as_ref().unwrap().exprs[0].default.as_ref().unwrap()), a(&m.fields[0].value), a(&m.fields[1].value)]), "obligation: every direct child expression is visited (exactly the children)"); } }
        std::mem::forget(e);
    }
    #[kani::proof] #[kani::unwind(6)]
    fn h_obj_comp() {
        let body = ObjBody::ObjComp(ObjComp { locals: Rc::new(vec![BindSpec::Field { into: Destruct::Full("l"), value: Rc::new(leaf(1)) }]), field: Rc::new(field(true, 2, false)), compspecs: vec![CompSpec::ForSpec(ForSpecData { destruct: Destruct::Full("x"), over: leaf(5) }), CompSpec::IfSpec(IfSpecData { span: Span, cond: leaf(6) })] });
        let e = Expr::Obj(body);
        let mut r = RecV::new(); visit_expr(&mut r, &e);
        if let Expr::Obj(ObjBody::ObjComp(c)) = &e { if let (BindSpec::Field { value: l, .. }, FieldName::Dyn(n0), CompSpec::ForSpec(f), CompSpec::IfSpec(i)) = (&c.locals[0], &*c.field.name, &c.compspecs[0], &c.compspecs[1]) {
            assert!(exact(&r, &[a(l), a(n0), a(&c.field.value), a(&f.over), a(&i.cond)]), "obligation: every direct child expression is visited (exactly the children)"); } }
        std::mem::forget(e);
    }
}
