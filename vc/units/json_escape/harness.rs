// Kani unit json_escape (C05, C14/TOML-keys reuse, C04): table-driven JSON string escaping.
#![allow(unused, dead_code, non_upper_case_globals)]
use std::ptr;
//@include fixed_bytes.rs

//@item crates/jrsonnet-evaluator/src/manifest.rs :: const BB
//@item crates/jrsonnet-evaluator/src/manifest.rs :: const TT
//@item crates/jrsonnet-evaluator/src/manifest.rs :: const NN
//@item crates/jrsonnet-evaluator/src/manifest.rs :: const FF
//@item crates/jrsonnet-evaluator/src/manifest.rs :: const RR
//@item crates/jrsonnet-evaluator/src/manifest.rs :: const QU
//@item crates/jrsonnet-evaluator/src/manifest.rs :: const BS
//@item crates/jrsonnet-evaluator/src/manifest.rs :: const UU
//@item crates/jrsonnet-evaluator/src/manifest.rs :: const __
//@item crates/jrsonnet-evaluator/src/manifest.rs :: static ESCAPE
//@item crates/jrsonnet-evaluator/src/manifest.rs :: fn escape_string_json_buf ;; keep-pub

#[cfg(kani)]
mod harness {
    use super::*;

    fn hexval(c: u8) -> Option<u8> { match c { b'0'..=b'9' => Some(c - b'0'), b'a'..=b'f' => Some(c - b'a' + 10), b'A'..=b'F' => Some(c - b'A' + 10), _ => None } }

    /// Independent RFC 8259 string-token reader (bytes level, BMP escapes < 0x80 only): returns the decoded
    /// bytes, or None if `out` is not exactly one well-formed JSON string token.
    fn json_read(out: &[u8], dec: &mut [u8; 8]) -> Option<usize> {
        let n = out.len();
        if n < 2 || out[0] != b'"' || out[n - 1] != b'"' { return None; }
        let mut i = 1; let mut k = 0;
        while i < n - 1 {
            let c = out[i];
            if c == b'"' || c < 0x20 { return None; }          // raw quote / raw control character: ill-formed
            if c == b'\\' {
                if i + 1 >= n - 1 { return None; }
                let e = out[i + 1];
                let d = match e {
                    b'"' => b'"', b'\\' => b'\\', b'/' => b'/', b'b' => 8, b'f' => 12, b'n' => 10, b'r' => 13, b't' => 9,
                    b'u' => {
                        if i + 5 >= n - 1 { return None; }
                        let (a, b, c2, d2) = (hexval(out[i + 2])?, hexval(out[i + 3])?, hexval(out[i + 4])?, hexval(out[i + 5])?);
                        if a != 0 || b != 0 || c2 >= 8 { return None; } // harness only needs code points < 0x80
                        i += 4; c2 * 16 + d2
                    }
                    _ => return None,
                };
                if k >= 8 { return None; } dec[k] = d; k += 1; i += 2;
            } else { if k >= 8 { return None; } dec[k] = c; k += 1; i += 1; }
        }
        Some(k)
    }

    /// every ASCII byte (all 128 one-character strings): output is one well-formed JSON string that reads back as the input
    #[kani::proof]
    #[kani::unwind(12)]
    fn h_escape_ascii_byte() {
        let b: u8 = kani::any(); kani::assume(b < 0x80);
        let arr = [b];
        let s = unsafe { std::str::from_utf8_unchecked(&arr) };   // a single byte < 0x80 is valid UTF-8
        let mut buf = String::new();
        escape_string_json_buf(s, &mut buf);
        let out = buf.as_bytes();
        let mut dec = [0u8; 8];
        let k = json_read(out, &mut dec);
        assert!(k == Some(1) && dec[0] == b, "obligation: escaped text is a well-formed JSON string that reads back as the same character");
        // the escape table itself: a byte needs escaping iff it is a control character, a quote or a backslash
        assert!((ESCAPE[b as usize] != 0) == (b < 0x20 || b == b'"' || b == b'\\'), "obligation: exactly controls, quote and backslash are escaped");
        assert!(out.len() == 3 || b < 0x20 || b == b'"' || b == b'\\', "obligation: other characters are copied unchanged");
        kani::cover!(b == 0x1f);
        kani::cover!(b == 0x7f);
    }

    /// the table marks no byte >= 0x80 (multi-byte UTF-8 sequences are copied through untouched)
    #[kani::proof]
    fn h_table_high() {
        let b: u8 = kani::any(); kani::assume(b >= 0x80);
        assert!(ESCAPE[b as usize] == 0, "obligation: non-ASCII bytes are never escaped");
        kani::cover!(true);
    }

    /// multi-byte characters next to escapes: é (2 bytes), U+2028 (3 bytes), 😀 (4 bytes) pass through byte for byte
    #[kani::proof]
    #[kani::unwind(12)]
    fn h_escape_multibyte() {
        let which: u8 = kani::any(); kani::assume(which < 3);
        let b: u8 = kani::any(); kani::assume(b < 0x80);
        let ch = match which { 0 => "é", 1 => "\u{2028}", _ => "😀" };
        let pre = [b];
        let mut s = String::new();
        s.push_str(unsafe { std::str::from_utf8_unchecked(&pre) });
        s.push_str(ch);
        let mut buf = String::new();
        escape_string_json_buf(&s, &mut buf);
        let out = buf.as_bytes();
        let cb = ch.as_bytes();
        let n = out.len();
        assert!(n >= 2 + 1 + cb.len() && out[n - 1] == b'"' && out[0] == b'"', "obligation: quoted");
        let mut j = 0;
        while j < cb.len() { assert!(out[n - 1 - cb.len() + j] == cb[j], "obligation: multi-byte character copied byte for byte after an escaped/plain character"); j += 1; }
        kani::cover!(b == b'\\' && which == 2);
    }

    /// stream bookkeeping (`start` index across bytes): strings of up to 3 ASCII bytes, all byte values
    #[kani::proof]
    #[kani::unwind(26)]
    fn h_escape_stream3() { let n: usize = kani::any(); kani::assume(n <= 3); check_stream(n); kani::cover!(n == 0); }
    #[kani::proof]
    #[kani::unwind(20)]
    fn h_escape_stream2() { check_stream(2); }
    fn check_stream(n: usize) {
        let bytes: [u8; 3] = kani::any();
        kani::assume(bytes[0] < 0x80 && bytes[1] < 0x80 && bytes[2] < 0x80);
        let s = unsafe { std::str::from_utf8_unchecked(&bytes[..n]) };
        let mut buf = String::new();
        escape_string_json_buf(s, &mut buf);
        let mut dec = [0u8; 8];
        let k = json_read(buf.as_bytes(), &mut dec);
        assert!(k == Some(n), "obligation: output is one well-formed JSON string of the same length");
        let mut i = 0; while i < n { assert!(dec[i] == bytes[i], "obligation: reads back code point for code point"); i += 1; }
        kani::cover!(bytes[0] == b'"' && bytes[1] == b'a');
    }
}
