// Kani unit call_binding (C10, C03): parse_builtin_call -- how the arguments of a call to a native (std) function are bound to its
// parameters.  Contract (the Jsonnet call rule): positional arguments fill parameters left to right, named arguments fill the
// parameter of that name, a parameter is bound at most once, a parameter without default must be bound; every passed argument goes
// through eval_arg with the call's tailstrict flag and nothing else is evaluated.  Checked for every call shape of up to 4 positional
// and 2 named arguments against every 3-parameter signature.
#![allow(unused, dead_code, static_mut_refs)]
use std::{fmt, ops::Deref, rc::Rc};

// ---------------------------------------------------------------- stand-ins (trusted)
#[derive(Debug, Clone, Copy, PartialEq, Eq)] pub struct IStr(pub u8);
impl fmt::Display for IStr { fn fmt(&self, f: &mut fmt::Formatter<'_>) -> fmt::Result { Ok(()) } }
impl Deref for IStr { type Target = str; fn deref(&self) -> &str { "" } }
#[derive(Debug, Clone, Copy, PartialEq)] pub struct Val;
#[derive(Debug, Clone, Copy, PartialEq)] pub struct Thunk<T> { pub expr: u8, pub strict: bool, pub _p: std::marker::PhantomData<T> }
#[derive(Debug, Clone, Copy)] pub struct Context;
#[derive(Debug)] pub struct Expr { pub id: u8 }
pub struct ArgsDesc { pub unnamed: Vec<Rc<Expr>>, pub named: Vec<(IStr, Rc<Expr>)> }
#[derive(Debug)]
pub enum ErrorKind { TooManyArgsFunctionHas(usize, FunctionSignature), UnknownFunctionParameter(IStr), BindingParameterASecondTime(IStr), FunctionParameterNotBoundInCall(ParamName, FunctionSignature) }
pub use ErrorKind::*;
#[derive(Debug)] pub struct Error(pub ErrorKind);
impl From<ErrorKind> for Error { fn from(e: ErrorKind) -> Self { Error(e) } }
pub type Result<T> = core::result::Result<T, Error>;
macro_rules! bail { ($w:ident$(($($tt:tt)*))?) => { return Err($w$(($($tt)*))?.into()) }; }
static mut EVALUATED: [u8; 8] = [0; 8];
static mut NEVAL: usize = 0;
/// contract of eval_arg (unit eval_arg): wraps the argument expression lazily, or forces it when tailstrict
fn eval_arg(_ctx: Context, arg: &Rc<Expr>, tailstrict: bool) -> Result<Thunk<Val>> { unsafe { EVALUATED[NEVAL] = arg.id; NEVAL += 1; } Ok(Thunk { expr: arg.id, strict: tailstrict, _p: std::marker::PhantomData }) }
pub trait Acyclic {} impl<T: ?Sized> Acyclic for T {}

// ---------------------------------------------------------------- extracted real code
//@item crates/jrsonnet-ir/src/function.rs :: enum ParamName ;; std-derives keep-pub
//@item crates/jrsonnet-ir/src/function.rs :: impl ParamName ;; keep-pub
//@item crates/jrsonnet-ir/src/function.rs :: impl PartialEq<IStr> for ParamName
//@item crates/jrsonnet-ir/src/function.rs :: enum ParamDefault ;; std-derives keep-pub
//@item crates/jrsonnet-ir/src/function.rs :: impl ParamDefault ;; keep-pub
//@item crates/jrsonnet-ir/src/function.rs :: struct ParamParse ;; std-derives keep-pub
//@item crates/jrsonnet-ir/src/function.rs :: impl ParamParse ;; keep-pub
//@item crates/jrsonnet-ir/src/function.rs :: struct FunctionSignature ;; std-derives keep-pub
//@item crates/jrsonnet-ir/src/function.rs :: impl Deref for FunctionSignature
//@item crates/jrsonnet-evaluator/src/function/parse.rs :: fn parse_builtin_call ;; keep-pub

#[cfg(kani)]
mod harness {
    use super::*;
    const A: IStr = IStr(1); const B: IStr = IStr(2); const C: IStr = IStr(3);
    fn any_name() -> IStr { IStr(1 + kani::any::<u8>() % 4) }          // a, b, c or the unknown name 4
    fn e(id: u8) -> Rc<Expr> { Rc::new(Expr { id }) }
    fn check(u: usize, m: usize, can_ok: bool, can_err: bool) {
        let d: [bool; 3] = [kani::any(), kani::any(), kani::any()];
        let sig = FunctionSignature(Rc::new([ParamParse::new(ParamName::Named(A), ParamDefault::exists(d[0])), ParamParse::new(ParamName::Named(B), ParamDefault::exists(d[1])), ParamParse::new(ParamName::Named(C), ParamDefault::exists(d[2]))]));
        let tailstrict: bool = kani::any();
        let unnamed: Vec<Rc<Expr>> = match u { 0 => vec![], 1 => vec![e(10)], 2 => vec![e(10), e(11)], 3 => vec![e(10), e(11), e(12)], _ => vec![e(10), e(11), e(12), e(13)] };
        let (n1, n2) = (any_name(), any_name());
        let named: Vec<(IStr, Rc<Expr>)> = match m { 0 => vec![], 1 => vec![(n1, e(20))], _ => vec![(n1, e(20)), (n2, e(21))] };
        // ---- the Jsonnet call rule, written independently
        let mut want: [Option<u8>; 3] = [None; 3]; let mut ok = u <= 3;
        if ok { let mut i = 0; while i < u { want[i] = Some(10 + i as u8); i += 1; }
            let mut j = 0; while j < m { let (nm, id) = if j == 0 { (n1, 20u8) } else { (n2, 21u8) };
                if nm.0 > 3 { ok = false; break; } let pos = (nm.0 - 1) as usize; if want[pos].is_some() { ok = false; break; } want[pos] = Some(id); j += 1; } }
        if ok { let mut i = 0; while i < 3 { if want[i].is_none() && !d[i] { ok = false; } i += 1; } }
        // ---- the real function
        let args = ArgsDesc { unnamed, named };
        let got = parse_builtin_call(Context, sig, &args, tailstrict);
        match &got {
            Ok(slots) => {
                assert!(ok, "obligation: a call that binds a parameter twice, names an unknown parameter, passes too many arguments or leaves a parameter without default unbound is an error");
                assert!(slots.len() == 3, "obligation: one slot per parameter");
                let mut i = 0; while i < 3 {
                    match (&slots[i], want[i]) { (Some(t), Some(id)) => assert!(t.expr == id && t.strict == tailstrict, "obligation: parameter i receives the positional argument i or the argument named after it, evaluated with the call's tailstrict flag"),
                        (None, None) => {}, _ => panic!("obligation: a parameter is bound iff an argument was passed for it (defaults stay unevaluated)") }
                    i += 1; }
                unsafe { assert!(NEVAL == u + m, "obligation: exactly the passed arguments are wrapped / evaluated, nothing else"); }
            }
            Err(_) => assert!(!ok, "obligation: a well-formed call is accepted"),
        }
        std::mem::forget(got); std::mem::forget(args);
        kani::cover!(!can_ok || ok); kani::cover!(!can_err || !ok);
    }
    #[kani::proof] #[kani::unwind(6)] fn h_u0_m0() { check(0, 0, true, true); }
    #[kani::proof] #[kani::unwind(6)] fn h_u0_m1() { check(0, 1, true, true); }
    #[kani::proof] #[kani::unwind(6)] fn h_u0_m2() { check(0, 2, true, true); }
    #[kani::proof] #[kani::unwind(6)] fn h_u1_m1() { check(1, 1, true, true); }
    #[kani::proof] #[kani::unwind(6)] fn h_u1_m2() { check(1, 2, true, true); }
    #[kani::proof] #[kani::unwind(6)] fn h_u2_m1() { check(2, 1, true, true); }
    #[kani::proof] #[kani::unwind(6)] fn h_u3_m0() { check(3, 0, true, false); }
    #[kani::proof] #[kani::unwind(6)] fn h_u3_m1() { check(3, 1, false, true); }
    #[kani::proof] #[kani::unwind(6)] fn h_u4_m0() { check(4, 0, false, true); }
    #[kani::proof] #[kani::unwind(6)] fn h_u1_m0() { check(1, 0, true, true); }
    #[kani::proof] #[kani::unwind(6)] fn h_u2_m0() { check(2, 0, true, true); }
    #[kani::proof] #[kani::unwind(6)] fn h_u2_m2() { check(2, 2, false, true); }
    #[kani::proof] #[kani::unwind(6)] fn h_u3_m2() { check(3, 2, false, true); }
    #[kani::proof] #[kani::unwind(6)] fn h_u4_m1() { check(4, 1, false, true); }
    #[kani::proof] #[kani::unwind(6)] fn h_u4_m2() { check(4, 2, false, true); }
}
