// Kani unit obj_members (C02, C03, C04): evaluate_member_list_object -- how an object literal wires its locals context to
// fields and assertions: ONE cached locals context per object literal, shared by every field and by the assertions.
#![allow(unused, dead_code, static_mut_refs)]
use std::rc::Rc;

// ---------------------------------------------------------------- stand-ins (trusted)
pub trait Trace {}
impl<T: ?Sized> Trace for T {}
#[derive(Debug, Clone, Copy, PartialEq, Eq)]
pub struct Error;
pub type Result<T> = std::result::Result<T, Error>;
#[derive(Debug, Clone, Copy, PartialEq, Eq)]
pub struct Context(pub u8);
#[derive(Debug, Clone, Copy, PartialEq, Eq)]
pub struct SupThis(pub u8);
pub trait Unbound: Trace { type Bound; fn bind(&self, sup_this: SupThis) -> Result<Self::Bound>; }
pub trait ObjectAssertion: Trace { fn run(&self, sup_this: SupThis) -> Result<()>; }
#[derive(Debug, Clone, Copy, PartialEq, Eq)]
pub struct BindSpec(pub u8);
#[derive(Debug, Clone, Copy, PartialEq, Eq)]
pub struct AssertStmt(pub u8);
#[derive(Debug, Clone, Copy, PartialEq, Eq)]
pub struct FieldMember(pub u8);
pub struct ObjMembers { pub locals: Rc<Vec<BindSpec>>, pub asserts: Rc<Vec<AssertStmt>>, pub fields: Vec<FieldMember> }
#[derive(Debug, Clone, Copy, PartialEq, Eq)]
pub struct ObjValue(pub u8);
pub struct FxHashMap;
impl FxHashMap { pub fn new() -> Self { FxHashMap } }
impl Context { pub fn extend_bindings_sup_this(self, _m: FxHashMap, _s: SupThis) -> Context { Context(self.0 + 100) } }
// instrumentation
pub static mut LOCALS_CONTEXTS_CREATED: u8 = 0;          // calls of evaluate_object_locals
pub static mut LOCALS_BINDS: u8 = 0;                     // times the locals context was actually bound (locals evaluated)
pub static mut FIELD_UCTX: [u8; 3] = [0; 3];             // identity of the context each field received
pub static mut NFIELDS: usize = 0;
pub static mut ASSERTS_RUN: u8 = 0;
pub static mut ASSERT_CTX: u8 = 0;
/// the uncached locals binder returned by evaluate_object_locals
#[derive(Clone, Copy)]
pub struct LocalsUnbound { pub id: u8 }
impl Unbound for LocalsUnbound { type Bound = Context; fn bind(&self, _s: SupThis) -> Result<Context> { unsafe { LOCALS_BINDS += 1; } Ok(Context(50 + self.id)) } }
pub fn evaluate_object_locals(_ctx: Context, _locals: Rc<Vec<BindSpec>>) -> LocalsUnbound { unsafe { LOCALS_CONTEXTS_CREATED += 1; LocalsUnbound { id: LOCALS_CONTEXTS_CREATED } } }
/// memoising wrapper with the contract verified in unit obj_misc (bound once per (object, super position)); clones share the cache
pub struct CachedUnbound<I: Unbound<Bound = T>, T> { pub inner: I, pub cache: Rc<std::cell::Cell<Option<T>>>, pub cache_id: u8 }
static mut NEXT_CACHE: u8 = 0;
impl<I: Unbound<Bound = T> + Clone, T: Copy> Clone for CachedUnbound<I, T> { fn clone(&self) -> Self { CachedUnbound { inner: self.inner.clone(), cache: self.cache.clone(), cache_id: self.cache_id } } }
impl<I: Unbound<Bound = T>, T: Copy> CachedUnbound<I, T> { pub fn new(value: I) -> Self { unsafe { NEXT_CACHE += 1; CachedUnbound { inner: value, cache: Rc::new(std::cell::Cell::new(None)), cache_id: NEXT_CACHE } } } }
impl<I: Unbound<Bound = T>, T: Copy> Unbound for CachedUnbound<I, T> { type Bound = T; fn bind(&self, s: SupThis) -> Result<T> { if let Some(t) = self.cache.get() { return Ok(t); } let b = self.inner.bind(s)?; self.cache.set(Some(b)); Ok(b) } }
/// what a field member does with its context: binds it when the field is read
pub fn evaluate_field_member<B: Unbound<Bound = Context> + Clone + 'static>(b: &mut ObjValueBuilder, _ctx: Context, uctx: B, _f: &FieldMember) -> Result<()> {
    b.field_binders.push(Box::new(move |st| uctx.bind(st)));
    Ok(())
}
pub fn evaluate_assert(ctx: Context, _a: &AssertStmt) -> Result<()> { unsafe { ASSERTS_RUN += 1; ASSERT_CTX = ctx.0; } Ok(()) }
pub struct ObjValueBuilder { pub sup: Option<ObjValue>, pub assertion: Option<Box<dyn ObjectAssertion>>, pub field_binders: Vec<Box<dyn Fn(SupThis) -> Result<Context>>> }
pub struct Built { pub sup: Option<ObjValue>, pub assertion: Option<Box<dyn ObjectAssertion>>, pub field_binders: Vec<Box<dyn Fn(SupThis) -> Result<Context>>> }
static mut BUILT: Option<Built> = None;
impl ObjValueBuilder {
    pub fn new() -> Self { ObjValueBuilder { sup: None, assertion: None, field_binders: Vec::new() } }
    pub fn with_super(&mut self, s: ObjValue) -> &mut Self { self.sup = Some(s); self }
    pub fn assert(&mut self, a: impl ObjectAssertion + 'static) -> &mut Self { assert!(self.assertion.is_none(), "one assertion per object literal"); self.assertion = Some(Box::new(a)); self }
    pub fn build(self) -> ObjValue { unsafe { BUILT = Some(Built { sup: self.sup, assertion: self.assertion, field_binders: self.field_binders }); } ObjValue(7) }
}

// ---------------------------------------------------------------- extracted real code
//@item crates/jrsonnet-evaluator/src/evaluate/mod.rs :: struct DirectUnbound ;; std-derives
//@item crates/jrsonnet-evaluator/src/evaluate/mod.rs :: impl Unbound for DirectUnbound
//@item crates/jrsonnet-evaluator/src/evaluate/mod.rs :: fn evaluate_member_list_object ;; keep-pub

#[cfg(kani)]
mod harness {
    use super::*;
    /// an object literal with locals, fields and assertions: reading all fields and running the assertions on the same object
    /// evaluates the object's locals ONCE (fields and assertions see the same bindings); without locals no locals context exists
    #[kani::proof]
    #[kani::unwind(5)]
    fn h_member_list() {
        let with_locals: bool = kani::any(); let with_asserts: bool = kani::any(); let with_super: bool = kani::any();
        let members = ObjMembers { locals: Rc::new(if with_locals { vec![BindSpec(1)] } else { vec![] }), asserts: Rc::new(if with_asserts { vec![AssertStmt(1)] } else { vec![] }), fields: vec![FieldMember(1), FieldMember(2)] };
        let r = evaluate_member_list_object(if with_super { Some(ObjValue(3)) } else { None }, Context(1), &members);
        assert!(r.is_ok(), "obligation: building an object literal cannot fail");
        let b = unsafe { BUILT.take().unwrap() };
        assert!(b.sup == if with_super { Some(ObjValue(3)) } else { None }, "obligation: the extension starts from the super object");
        assert!(b.field_binders.len() == 2 && b.assertion.is_some() == with_asserts, "obligation: every field and the assertions are registered");
        unsafe { assert!(LOCALS_BINDS == 0, "obligation: building the object evaluates no locals"); }
        // read both fields and run the assertions against the same (this, super)
        let st = SupThis(9);
        let c1 = (b.field_binders[0])(st); let c2 = (b.field_binders[1])(st);
        if let Some(a) = &b.assertion { assert!(a.run(st).is_ok()); }
        unsafe {
            if with_locals {
                assert!(LOCALS_CONTEXTS_CREATED == 1, "obligation: one locals context per object literal, shared by fields and assertions");
                assert!(LOCALS_BINDS == 1, "obligation: object locals are evaluated at most once per object, however many fields and assertions use them");
                assert!(c1 == c2 && (!with_asserts || ASSERT_CTX == c1.unwrap().0), "obligation: fields and assertions see the same bindings");
            } else { assert!(LOCALS_CONTEXTS_CREATED == 0 && LOCALS_BINDS == 0, "obligation: no locals, no locals context"); assert!(c1 == Ok(Context(101)) && c2 == c1); }
            assert!(ASSERTS_RUN == with_asserts as u8);
        }
        kani::cover!(with_locals && with_asserts);
        kani::cover!(!with_locals && with_asserts);
    }
}
