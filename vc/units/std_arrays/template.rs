// Verus unit std_arrays (C10, C08, C04): std.removeAt / std.range verified against the
// *contracts* of ArrValue::slice / extended / range_inclusive / empty (modular: a change
// inside those callees is caught by their own units arr_ctor / arr_views).
use vstd::prelude::*;
// stand-in for jrsonnet_evaluator::bail! (literal arm only): the message is dropped
macro_rules! bail { ($l:literal) => { return Err(Error { e: 0 }) }; }
verus! {

pub struct Error { pub e: u8 }
pub type Result<T> = core::result::Result<T, Error>;

#[verifier::external_body]
pub struct ArrValue { _p: core::marker::PhantomData<u8> }

// Python-style slice bound normalisation -- same function as harness arr_ctor::h_slice proves for ArrValue::slice
pub open spec fn norm_idx(pos: Option<i32>, len: int, default: int) -> int {
    match pos {
        None => default,
        Some(v) => if v < 0 { if len + v < 0 { 0 } else { len + v } } else { if (v as int) < len { v as int } else { len } },
    }
}

impl ArrValue {
    pub uninterp spec fn view(&self) -> Seq<int>;

    #[verifier::external_body]
    pub fn clone(&self) -> (r: ArrValue) ensures r.view() == self.view() { unimplemented!() }

    #[verifier::external_body]
    pub fn len(&self) -> (r: usize) ensures r as int == self.view().len() { unimplemented!() }

    /// contract = postcondition proved in arr_ctor::h_slice composed with SliceArray's view (arr_views), step = 1 case
    #[verifier::external_body]
    pub fn slice(self, index: Option<i32>, end: Option<i32>, step: Option<core::num::NonZeroU32>) -> (r: ArrValue)
        ensures step is None ==> ({
            let f = norm_idx(index, self.view().len() as int, 0);
            let t = norm_idx(end, self.view().len() as int, self.view().len() as int);
            r.view() == if f >= t { Seq::<int>::empty() } else { self.view().subrange(f, t) }
        }),
    { unimplemented!() }

    /// contract = ExtendedArray view (arr_views) / copying branches (arr_extended, bounded)
    #[verifier::external_body]
    pub fn extended(a: ArrValue, b: ArrValue) -> (r: ArrValue) ensures r.view() == a.view() + b.view() { unimplemented!() }

    #[verifier::external_body]
    pub fn empty() -> (r: ArrValue) ensures r.view() == Seq::<int>::empty() { unimplemented!() }

    /// contract = arr_ctor::h_range_inclusive; NOTE the precondition: the length computation wraps otherwise
    #[verifier::external_body]
    pub fn range_inclusive(a: i32, b: i32) -> (r: ArrValue)
        requires a as int <= b as int + 1,
        ensures r.view() == Seq::new((b - a + 1) as nat, |i: int| a as int + i),
    { unimplemented!() }
}

// reference definitions (Jsonnet stdlib documentation / std.jsonnet):
//   removeAt(arr, at) = [arr[i] for i in range(0, len-1) if i != at]
//   range(from, to)   = [from, from+1, ..., to]  (empty if to < from)
pub open spec fn remove_at_spec(s: Seq<int>, at: int) -> Seq<int> {
    if 0 <= at < s.len() { s.subrange(0, at) + s.subrange(at + 1, s.len() as int) } else { s }
}

#[allow(non_snake_case)]
pub fn builtin_remove_at(arr: ArrValue, at: i32) -> (r: Result<ArrValue>)
    ensures
        r is Ok ==> r->Ok_0.view() == remove_at_spec(arr.view(), at as int),
        r is Err ==> at == i32::MAX,      // the only index the i32 slice API cannot step past
//@body crates/jrsonnet-stdlib/src/arrays.rs :: fn builtin_remove_at ;; id=remove_at
//@sig fn builtin_remove_at(arr: ArrValue, at: i32) -> Result<ArrValue>
//@ghost remove_at before "Ok(ArrValue::extended("
	proof {
		let s = arr.view();
		if 0 <= at < s.len() {
			assert(newArrLeft.view() =~= s.subrange(0, at as int));
			assert(newArrRight.view() =~= s.subrange(at + 1, s.len() as int));
		}
	}
//@endghost

pub fn builtin_range(from: i32, to: i32) -> (r: Result<ArrValue>)
    ensures
        r is Ok,
        to < from ==> r->Ok_0.view() == Seq::<int>::empty(),
        to >= from ==> r->Ok_0.view() == Seq::new((to - from + 1) as nat, |i: int| from as int + i),
//@body crates/jrsonnet-stdlib/src/arrays.rs :: fn builtin_range ;; id=range
//@sig fn builtin_range(from: i32, to: i32) -> Result<ArrValue>

} // verus!
fn main() {}
