// Kani unit num_core (C09, C04): NumValue invariant, numeric equality/ordering coherence,
// arithmetic operators, bitwise operators and shifts -- loop-free, full f64 domain.
//@include eval_prelude.rs

// ------------------------------------------------------------ extracted real code
//@item crates/jrsonnet-ir/src/expr.rs :: enum BinaryOpType ;; std-derives keep-pub
//@item crates/jrsonnet-ir/src/expr.rs :: enum UnaryOpType ;; std-derives keep-pub
//@item crates/jrsonnet-evaluator/src/typed/conversions.rs :: const MAX_SAFE_INTEGER ;; keep-pub
//@item crates/jrsonnet-evaluator/src/typed/conversions.rs :: const MIN_SAFE_INTEGER ;; keep-pub
//@item crates/jrsonnet-evaluator/src/val.rs :: struct NumValue ;; std-derives keep-pub
//@item crates/jrsonnet-evaluator/src/val.rs :: impl NumValue ;; keep-pub
//@item crates/jrsonnet-evaluator/src/val.rs :: impl PartialEq for NumValue
//@item crates/jrsonnet-evaluator/src/val.rs :: impl Eq for NumValue
//@item crates/jrsonnet-evaluator/src/val.rs :: impl Ord for NumValue
//@item crates/jrsonnet-evaluator/src/val.rs :: impl PartialOrd for NumValue
//@item crates/jrsonnet-evaluator/src/val.rs :: impl Deref for NumValue
//@item crates/jrsonnet-evaluator/src/val.rs :: impl Debug for NumValue
//@item crates/jrsonnet-evaluator/src/val.rs :: impl Display for NumValue
//@item crates/jrsonnet-evaluator/src/val.rs :: enum ConvertNumValueError ;; std-derives keep-pub
//@item crates/jrsonnet-evaluator/src/val.rs :: impl From<ConvertNumValueError> for Error
//@item crates/jrsonnet-evaluator/src/val.rs :: macro_rules! impl_num
impl_num!(i8, u8, i16, u16, i32, u32);
//@item crates/jrsonnet-evaluator/src/val.rs :: macro_rules! impl_try_num
impl_try_num!(usize, isize, i64, u64);
//@item crates/jrsonnet-evaluator/src/val.rs :: impl TryFrom<f64> for NumValue
//@item crates/jrsonnet-evaluator/src/val.rs :: enum Val ;; std-derives keep-pub
impl Val {
//@item crates/jrsonnet-evaluator/src/val.rs :: impl Val > fn value_type ;; keep-pub
//@item crates/jrsonnet-evaluator/src/val.rs :: impl Val > fn try_num ;; keep-pub
//@item crates/jrsonnet-evaluator/src/val.rs :: impl Val > fn string ;; keep-pub
//@item crates/jrsonnet-evaluator/src/val.rs :: impl Val > fn manifest ;; keep-pub
//@item crates/jrsonnet-evaluator/src/val.rs :: impl Val > fn to_string ;; keep-pub
}
//@item crates/jrsonnet-evaluator/src/val.rs :: fn is_function_like
//@item crates/jrsonnet-evaluator/src/val.rs :: fn primitive_equals ;; keep-pub
//@item crates/jrsonnet-evaluator/src/val.rs :: fn equals ;; keep-pub
//@item crates/jrsonnet-evaluator/src/evaluate/operator.rs :: fn evaluate_unary_op ;; keep-pub
//@item crates/jrsonnet-evaluator/src/evaluate/operator.rs :: fn evaluate_add_op ;; keep-pub
//@item crates/jrsonnet-evaluator/src/evaluate/operator.rs :: fn evaluate_sub_op ;; keep-pub
//@item crates/jrsonnet-evaluator/src/evaluate/operator.rs :: fn evaluate_mul_op ;; keep-pub
//@item crates/jrsonnet-evaluator/src/evaluate/operator.rs :: fn is_attempt_to_divide_by_zero
//@item crates/jrsonnet-evaluator/src/evaluate/operator.rs :: fn evaluate_div_op ;; keep-pub
//@item crates/jrsonnet-evaluator/src/evaluate/operator.rs :: fn evaluate_mod_op ;; keep-pub
//@item crates/jrsonnet-evaluator/src/evaluate/operator.rs :: fn evaluate_compare_op ;; keep-pub
//@item crates/jrsonnet-evaluator/src/evaluate/operator.rs :: fn evaluate_binary_op_normal ;; keep-pub
use std::ops::Deref;
use std::fmt::{self, Debug, Display};

// ------------------------------------------------------------ harnesses
#[cfg(kani)]
mod harness {
    extern crate alloc;
    use super::*;
    use BinaryOpType::*;

    fn stub_format(_a: std::fmt::Arguments<'_>) -> String { String::new() }
    fn finite() -> f64 { let x: f64 = kani::any(); kani::assume(x.is_finite()); x }
    fn nv(x: f64) -> NumValue { match NumValue::new(x) { Some(n) => n, None => panic!("obligation: NumValue::new rejects a finite value") } }
    fn num(x: f64) -> Val { Val::Num(nv(x)) }
    fn ok<T>(r: Result<T>) -> T { match r { Ok(v) => v, Err(_) => panic!("obligation: unexpected Err") } }
    fn as_num(v: &Val) -> f64 { match v { Val::Num(n) => n.get(), _ => panic!("obligation: numeric operator returned a non-number") } }
    fn as_bool(v: &Val) -> bool { match v { Val::Bool(b) => *b, _ => panic!("obligation: comparison returned a non-boolean") } }
    fn binop(a: f64, op: BinaryOpType, b: f64) -> Result<Val> { evaluate_binary_op_normal(&num(a), op, &num(b)) }

    /// NumValue::new(v) is Some exactly for finite v, and preserves the value (bitwise, so -0 stays -0)
    #[kani::proof]
    #[kani::stub(alloc::fmt::format, stub_format)]
    fn h_numvalue_new() {
        let v: f64 = kani::any();
        match NumValue::new(v) {
            Some(n) => { assert!(v.is_finite()); assert!(n.get().to_bits() == v.to_bits()); }
            None => assert!(!v.is_finite()),
        }
        kani::cover!(NumValue::new(v).is_some());
        kani::cover!(NumValue::new(v).is_none());
    }

    /// Val::try_num(f64) == finite check; TryFrom<i64/u64/usize/isize> range = safe-integer range
    #[kani::proof]
    #[kani::stub(alloc::fmt::format, stub_format)]
    fn h_try_num() {
        let v: f64 = kani::any();
        let r: Result<Val, ConvertNumValueError> = Val::try_num(v);
        match r { Ok(x) => { assert!(v.is_finite()); assert!(as_num(&x).to_bits() == v.to_bits()); } Err(_) => assert!(!v.is_finite()) }
        let i: i64 = kani::any();
        let ri = NumValue::try_from(i);
        assert!(ri.is_ok() == (i >= -9007199254740991 && i <= 9007199254740991));
        if let Ok(n) = ri { assert!(n.get() as i64 == i); }
        let u: u64 = kani::any();
        let ru = NumValue::try_from(u);
        assert!(ru.is_ok() == (u <= 9007199254740991));
        if let Ok(n) = ru { assert!(n.get() as u64 == u); }
        kani::cover!(ri.is_err());
        kani::cover!(ru.is_ok());
    }

    /// Ord for NumValue: no UB in unwrap_unchecked (operands finite) and agrees with IEEE comparison
    #[kani::proof]
    #[kani::stub(alloc::fmt::format, stub_format)]
    fn h_numvalue_cmp() {
        let a = finite(); let b = finite();
        let (na, nb) = (nv(a), nv(b));
        let o = na.cmp(&nb);
        assert!((o == Ordering::Less) == (a < b));
        assert!((o == Ordering::Greater) == (a > b));
        assert!((o == Ordering::Equal) == (a == b));
        assert!(na.partial_cmp(&nb) == Some(o));
        assert!((na == nb) == (a == b));
        kani::cover!(o == Ordering::Equal && a.to_bits() != b.to_bits()); // 0 vs -0
    }

    /// Trichotomy: exactly one of a<b, a==b, a>b; ==, !=, <=, >= agree with it (through the real operator dispatch)
    #[kani::proof]
    #[kani::stub(alloc::fmt::format, stub_format)]
    fn h_trichotomy() {
        let a = finite(); let b = finite();
        let lt = as_bool(&ok(binop(a, Lt, b)));
        let gt = as_bool(&ok(binop(a, Gt, b)));
        let eq = as_bool(&ok(binop(a, Eq, b)));
        let ne = as_bool(&ok(binop(a, Neq, b)));
        let le = as_bool(&ok(binop(a, Lte, b)));
        let ge = as_bool(&ok(binop(a, Gte, b)));
        assert!((lt as u8) + (eq as u8) + (gt as u8) == 1, "obligation: exactly one of a<b, a==b, a>b");
        assert!(ne == !eq, "obligation: != is the negation of ==");
        assert!(le == (lt || eq), "obligation: <= agrees with < and ==");
        assert!(ge == (gt || eq), "obligation: >= agrees with > and ==");
        assert!(lt == (a < b) && gt == (a > b) && eq == (a == b), "obligation: comparison is the IEEE comparison of the doubles");
        // std.primitiveEquals / std.equals on numbers are the same relation
        assert!(ok(primitive_equals(&num(a), &num(b))) == eq);
        assert!(ok(equals(&num(a), &num(b))) == eq);
        // the order used by std.sort / std.set / std.setMember (evaluate_compare_op / NumValue::cmp) agrees with ==
        let o = ok(evaluate_compare_op(&num(a), &num(b), Lt));
        assert!((o == Ordering::Equal) == eq, "obligation: sort/set order is Equal exactly when == holds");
        kani::cover!(eq && a.to_bits() != b.to_bits());
        kani::cover!(lt);
    }

    fn check_arith(op: BinaryOpType, a: f64, b: f64, exact: f64, zero_div: bool) {
        match binop(a, op, b) {
            Ok(v) => {
                let r = as_num(&v);
                assert!(r.is_finite(), "obligation: non-finite result is never a value");
                assert!(r.to_bits() == exact.to_bits() || (r == exact), "obligation: result is the IEEE-754 result of the operation");
                assert!(!zero_div, "obligation: division/modulo by zero is an error");
            }
            Err(_) => assert!(!exact.is_finite() || zero_div, "obligation: error only for non-finite result or zero divisor"),
        }
    }
    #[kani::proof]
    #[kani::stub(alloc::fmt::format, stub_format)]
    fn h_add() { let a = finite(); let b = finite(); check_arith(Add, a, b, a + b, false); kani::cover!(binop(a, Add, b).is_err()); kani::cover!(binop(a, Add, b).is_ok()); }
    #[kani::proof]
    #[kani::stub(alloc::fmt::format, stub_format)]
    fn h_sub() { let a = finite(); let b = finite(); check_arith(Sub, a, b, a - b, false); kani::cover!(binop(a, Sub, b).is_err()); kani::cover!(binop(a, Sub, b).is_ok()); }
    #[kani::proof]
    #[kani::stub(alloc::fmt::format, stub_format)]
    fn h_mul() { let a = finite(); let b = finite(); check_arith(Mul, a, b, a * b, false); kani::cover!(true); }
    #[kani::proof]
    #[kani::stub(alloc::fmt::format, stub_format)]
    fn h_div() { let a = finite(); let b = finite(); check_arith(Div, a, b, a / b, b == 0.0); kani::cover!(true); }
    #[kani::proof]
    #[kani::stub(alloc::fmt::format, stub_format)]
    fn h_mod() { let a = finite(); let b = finite(); check_arith(Mod, a, b, a % b, b == 0.0); kani::cover!(binop(a, Mod, b).is_err()); kani::cover!(binop(a, Mod, b).is_ok()); }

    /// division / modulo by +0 or -0 is an error for every dividend (cheap: divisor concrete)
    #[kani::proof]
    #[kani::stub(alloc::fmt::format, stub_format)]
    fn h_div_zero() {
        let a = finite(); let neg: bool = kani::any();
        let z = if neg { -0.0 } else { 0.0 };
        assert!(binop(a, Div, z).is_err(), "obligation: division by zero is an error");
        assert!(binop(a, Mod, z).is_err(), "obligation: modulo by zero is an error");
        // and a non-zero divisor is not mistaken for zero
        assert!(binop(0.0, Div, 1.0).is_ok() && binop(4.0, Mod, 3.0).is_ok());
        kani::cover!(neg);
    }
    #[kani::proof]
    #[kani::stub(alloc::fmt::format, stub_format)]
    fn h_unary() {
        let a = finite();
        let m = ok(evaluate_unary_op(UnaryOpType::Minus, &num(a)));
        assert!(as_num(&m).to_bits() == (-a).to_bits());
        let p = ok(evaluate_unary_op(UnaryOpType::Plus, &num(a)));
        assert!(as_num(&p).to_bits() == a.to_bits());
        let bv: bool = kani::any();
        assert!(as_bool(&ok(evaluate_unary_op(UnaryOpType::Not, &Val::Bool(bv)))) == !bv);
        // ~x on a safe integer is the two's-complement NOT of its integer value
        if a >= MIN_SAFE_INTEGER && a <= MAX_SAFE_INTEGER {
            let n = ok(evaluate_unary_op(UnaryOpType::BitNot, &num(a)));
            assert!(as_num(&n) == (!(a as i64)) as f64);
        }
        assert!(evaluate_unary_op(UnaryOpType::Not, &num(a)).is_err());
        kani::cover!(true);
    }

    fn safe(x: f64) -> bool { x >= -9007199254740991.0 && x <= 9007199254740991.0 }

    /// truncate_for_bitwise: Ok exactly on the safe-integer range, value = trunc(x)
    #[kani::proof]
    #[kani::stub(alloc::fmt::format, stub_format)]
    fn h_truncate() {
        let a = finite();
        match nv(a).truncate_for_bitwise() {
            Ok(i) => { assert!(safe(a)); assert!(i as f64 == a.trunc()); }
            Err(_) => assert!(!safe(a)),
        }
        kani::cover!(!safe(a));
    }

    /// & | ^ : act on the integer value; error iff an operand is outside the safe-integer range
    fn check_bitwise(op: BinaryOpType, f: fn(i64, i64) -> i64) {
        let a = finite(); let b = finite();
        match binop(a, op, b) {
            Ok(v) => {
                assert!(safe(a) && safe(b), "obligation: bitwise operator fails for operands outside the safe-integer range");
                let r = as_num(&v);
                assert!(r as i64 == f(a as i64, b as i64) && r == r.trunc(), "obligation: bitwise operator acts on the integer values");
            }
            Err(_) => assert!(!(safe(a) && safe(b)), "obligation: bitwise operator succeeds on safe integers"),
        }
        kani::cover!(binop(a, op, b).is_err());
        kani::cover!(binop(a, op, b).is_ok());
    }
    #[kani::proof]
    #[kani::stub(alloc::fmt::format, stub_format)]
    fn h_bitand() { check_bitwise(BitAnd, |x, y| x & y); }
    #[kani::proof]
    #[kani::stub(alloc::fmt::format, stub_format)]
    fn h_bitor() { check_bitwise(BitOr, |x, y| x | y); }
    #[kani::proof]
    #[kani::stub(alloc::fmt::format, stub_format)]
    fn h_bitxor() { check_bitwise(BitXor, |x, y| x ^ y); }

    /// << : error iff operand outside safe range, negative count, or base * 2^(k mod 64) does not fit i64
    #[kani::proof]
    #[kani::stub(alloc::fmt::format, stub_format)]
    fn h_shl() {
        let a = finite(); let b = finite();
        let r = binop(a, Lhs, b);
        let ok_operands = safe(a) && safe(b) && b >= 0.0;
        if !ok_operands { assert!(r.is_err(), "obligation: << fails for unsafe operands and negative shift counts"); }
        else {
            let base = a as i64; let k = ((b as i64) % 64) as u32;
            let wide = (base as i128) << k;
            let fits = wide >= i64::MIN as i128 && wide <= i64::MAX as i128;
            match &r {
                Ok(v) => { assert!(fits, "obligation: left shift that would overflow is an error"); assert!(as_num(&v) == (wide as i64) as f64, "obligation: << is base * 2^k"); }
                Err(_) => assert!(!fits, "obligation: << succeeds when the result fits"),
            }
        }
        kani::cover!(r.is_ok());
        kani::cover!(r.is_err() && ok_operands);
    }

    /// >> : error iff operand outside safe range or negative count; result = arithmetic shift by (k mod 64)
    #[kani::proof]
    #[kani::stub(alloc::fmt::format, stub_format)]
    fn h_shr() {
        let a = finite(); let b = finite();
        let r = binop(a, Rhs, b);
        let ok_operands = safe(a) && safe(b) && b >= 0.0;
        match &r {
            Ok(v) => { assert!(ok_operands, "obligation: >> fails for unsafe operands and negative shift counts");
                       assert!(as_num(&v) == ((a as i64) >> (((b as i64) % 64) as u32)) as f64, "obligation: >> is the arithmetic shift of the integer value"); }
            Err(_) => assert!(!ok_operands, "obligation: >> succeeds on safe operands"),
        }
        kani::cover!(r.is_ok());
        kani::cover!(r.is_err());
    }
}
