// Kani unit eval_arg (C03, C04): function-call arguments are wrapped lazily unless the call is tailstrict.
#![allow(unused, dead_code, static_mut_refs, non_snake_case)]
use std::cell::RefCell;
use std::rc::Rc;

// ---------------------------------------------------------------- stand-ins (trusted)
#[derive(Debug, Clone, Copy, PartialEq, Eq)]
pub struct Val(pub u8);
#[derive(Debug, Clone, Copy, PartialEq, Eq)]
pub struct Error(pub u8);
pub type Result<T> = std::result::Result<T, Error>;
#[derive(Debug, Clone, Copy)]
pub struct Context;
/// every syntactic shape an argument can have matters only through `evaluate`; the variants exist so that a
/// shape-dependent shortcut in eval_arg is observable
#[derive(Debug, Clone, Copy, PartialEq, Eq)]
pub enum Expr { Var(u8), Num(u8), Str(u8), Error(u8), Apply(u8), Other(u8) }
static mut EVALS: u8 = 0;
static mut OUTCOME: Result<Val> = Ok(Val(0));
pub fn evaluate(_ctx: Context, _e: &Expr) -> Result<Val> { unsafe { EVALS += 1; OUTCOME } }
/// memoising thunk: the real cell (MemoizedClosureThunk) is verified in unit memo_cells; this stand-in keeps its contract
pub struct Thunk<T>(Rc<RefCell<ThunkState<T>>>);
enum ThunkState<T> { Lazy(Option<Box<dyn FnOnce() -> Result<T>>>), Done(Result<T>) }
impl<T: Copy + 'static> Thunk<T> {
    pub fn evaluated(v: T) -> Self { Thunk(Rc::new(RefCell::new(ThunkState::Done(Ok(v))))) }
    pub fn lazy(f: impl FnOnce() -> Result<T> + 'static) -> Self { Thunk(Rc::new(RefCell::new(ThunkState::Lazy(Some(Box::new(f)))))) }
    pub fn evaluate(&self) -> Result<T> {
        let f = match &mut *self.0.borrow_mut() { ThunkState::Done(r) => return *r, ThunkState::Lazy(f) => f.take().unwrap() };
        let r = f(); *self.0.borrow_mut() = ThunkState::Done(r); r
    }
}
/// stand-in for the jrsonnet_macros::Thunk! proc macro (Thunk::new(MemoizedClosureThunk::new(env, closure)))
macro_rules! Thunk { ($c:expr) => { Thunk::lazy($c) }; }

// ---------------------------------------------------------------- extracted real code
//@item crates/jrsonnet-evaluator/src/function/parse.rs :: fn eval_arg

#[cfg(kani)]
mod harness {
    use super::*;
    fn any_expr() -> Expr { let k: u8 = kani::any(); kani::assume(k < 6); match k { 0 => Expr::Var(1), 1 => Expr::Num(1), 2 => Expr::Str(1), 3 => Expr::Error(1), 4 => Expr::Apply(1), _ => Expr::Other(1) } }
    /// non-tailstrict: building the argument evaluates NOTHING, whatever the argument looks like (an unused argument is never
    /// evaluated); the first use evaluates it once, further uses reuse the result.  tailstrict: evaluated exactly once, now.
    #[kani::proof]
    #[kani::unwind(4)]
    fn h_eval_arg() {
        unsafe { EVALS = 0; OUTCOME = if kani::any() { Ok(Val(kani::any())) } else { Err(Error(kani::any())) }; }
        let e = Rc::new(any_expr());
        let tailstrict: bool = kani::any();
        let r = eval_arg(Context, &e, tailstrict);
        unsafe {
            if tailstrict {
                assert!(EVALS == 1, "obligation: tailstrict forces the argument exactly once, at call time");
                match r { Ok(t) => { assert!(OUTCOME.is_ok() && t.evaluate() == OUTCOME && EVALS == 1, "obligation: tailstrict never changes a result that exists"); } Err(x) => assert!(OUTCOME == Err(x), "obligation: a failing tailstrict argument fails the call") }
            } else {
                assert!(EVALS == 0, "obligation: an argument that is not used is never evaluated (no shape of argument is evaluated eagerly)");
                match r { Ok(t) => { let a = t.evaluate(); let b = t.evaluate(); assert!(a == OUTCOME && b == OUTCOME && EVALS == 1, "obligation: a used argument is evaluated at most once"); } Err(_) => panic!("obligation: building a lazy argument cannot fail") }
            }
        }
        kani::cover!(!tailstrict && matches!(*e, Expr::Var(_)));
        kani::cover!(tailstrict);
    }
}
