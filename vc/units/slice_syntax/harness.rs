// Kani unit slice_syntax (C06): the index / slice suffix `a[e]`, `a[e?:e?]`, `a[e?:e?:e?]` in the two hand-written parsers that must
// accept the same texts -- slice_desc_or_index of the syntax-tree (rowan) parser behind the formatter and slice_desc of the evaluator's
// parser.  Every token sequence of 6 tokens over {expression, ':', ']', other} is compared with the Jsonnet grammar of the suffix.
// Expression parsing is cut at the callee contract (consumes one expression or reports an error).
#![allow(unused, dead_code, non_camel_case_types)]

// ---------------------------------------------------------------- shared stand-ins (trusted)
#[derive(Clone, Copy, PartialEq, Eq, Debug)]
pub enum K { L_BRACK, E, COLON, R_BRACK, OTHER, EOF, SLICE_DESC, SLICE_DESC_END, SLICE_DESC_STEP }
const NTOK: usize = 7;
/// reference: the Jsonnet grammar of the suffix after `[`.  Some((is_slice, has_end, has_step, tokens consumed)) or None = syntax error
fn reference(s: &[K; NTOK]) -> Option<(bool, bool, bool, usize)> {
    let mut i = 1; let mut start = false;
    if s[i] == K::E { start = true; i += 1; }
    if s[i] == K::R_BRACK { return if start { Some((false, false, false, i + 1)) } else { None }; }
    if s[i] != K::COLON { return None; }
    i += 1;
    let mut end = false; if s[i] == K::E { end = true; i += 1; }
    if s[i] == K::R_BRACK { return Some((true, end, false, i + 1)); }
    if s[i] != K::COLON { return None; }
    i += 1;
    let mut step = false; if s[i] == K::E { step = true; i += 1; }
    if s[i] == K::R_BRACK { Some((true, end, step, i + 1)) } else { None }
}

// ---------------------------------------------------------------- rowan side
pub mod rowan_side {
    use super::K; use super::K::*; use super::NTOK;
    pub type SyntaxKind = K;
    #[derive(Clone, Copy)] pub struct SyntaxKindSet(pub [bool; 2]);
    macro_rules! T { [:] => { K::COLON }; [']'] => { K::R_BRACK }; }
    macro_rules! TS { [']' :] => { SyntaxKindSet([true, true]) }; }
    pub struct Parser { pub kinds: [K; NTOK], pub offset: usize, pub errors: u32, pub wrapped_end: bool, pub wrapped_step: bool, pub completed: Option<K>, pub forgotten: bool }
    pub struct Marker; pub struct CompletedMarker;
    impl Parser {
        fn current(&self) -> K { if self.offset < NTOK { self.kinds[self.offset] } else { K::EOF } }
        pub fn at(&self, k: K) -> bool { self.current() == k }
        pub fn at_ts(&self, s: SyntaxKindSet) -> bool { (s.0[0] && self.current() == K::R_BRACK) || (s.0[1] && self.current() == K::COLON) }
        pub fn bump(&mut self) { assert!(self.current() != K::EOF, "already at end"); self.offset += 1; }
        pub fn start(&mut self) -> Marker { Marker }
        /// contract of Parser::expect: consume the token if it is the expected one, otherwise record a syntax error (skipping the offending token unless at the end)
        pub fn expect(&mut self, k: K) { if self.at(k) { self.bump(); } else { self.errors += 1; if self.current() != K::EOF { self.offset += 1; } } }
    }
    impl Marker { pub fn forget(self, p: &mut Parser) { p.forgotten = true; } pub fn complete(self, p: &mut Parser, k: K) -> CompletedMarker { p.completed = Some(k); CompletedMarker } }
    impl CompletedMarker { pub fn wrap(self, p: &mut Parser, k: K, _prev: bool) -> Self { if k == K::SLICE_DESC_END { p.wrapped_end = true; } if k == K::SLICE_DESC_STEP { p.wrapped_step = true; } self } }
    /// contract of expr(): consumes one expression, or records a syntax error when there is none
    pub fn expr(p: &mut Parser) -> CompletedMarker { if p.at(K::E) { p.bump(); } else { p.errors += 1; } CompletedMarker }
//@item crates/jrsonnet-rowan-parser/src/parser.rs :: fn slice_desc_or_index ;; keep-pub
    pub fn run(p: &mut Parser) -> bool { slice_desc_or_index(p) }
}

// ---------------------------------------------------------------- evaluator-parser side
pub mod ir_side {
    use super::K; use super::NTOK;
    macro_rules! T { [:] => { K::COLON }; [']'] => { K::R_BRACK }; }
    pub struct ParseError; pub type Result<T> = core::result::Result<T, ParseError>;
    pub struct Expr; pub struct Spanned<T>(pub T);
    pub struct SliceDesc { pub start: Option<Spanned<Expr>>, pub end: Option<Spanned<Expr>>, pub step: Option<Spanned<Expr>> }
    pub struct Parser<'a> { pub kinds: &'a [K; NTOK], pub offset: usize }
    impl<'a> Parser<'a> {
        fn peek(&self) -> K { if self.offset < NTOK { self.kinds[self.offset] } else { K::EOF } }
        pub fn at(&self, k: K) -> bool { self.peek() != K::EOF && self.peek() == k }
        pub fn try_eat(&mut self, k: K) -> bool { if self.at(k) { self.offset += 1; true } else { false } }
        pub fn eat(&mut self, k: K) -> Result<()> { if !self.at(k) { return Err(ParseError); } self.offset += 1; Ok(()) }
    }
    pub fn expr(p: &mut Parser<'_>) -> Result<Expr> { if p.at(K::E) { p.offset += 1; Ok(Expr) } else { Err(ParseError) } }
    pub fn spanned<T>(p: &mut Parser<'_>, f: fn(&mut Parser<'_>) -> Result<T>) -> Result<Spanned<T>> { Ok(Spanned(f(p)?)) }
//@item crates/jrsonnet-ir-parser/src/lib.rs :: fn slice_desc ;; keep-pub
    /// the call site in the suffix loop (`p.at(T!['['])` arm), transcribed: start expression, then index or slice_desc, then `]`
    pub fn suffix(p: &mut Parser<'_>) -> Result<(bool, bool, bool)> {
        p.eat(K::L_BRACK)?;
        if p.at(K::COLON) { let s = slice_desc(p, None)?; p.eat(K::R_BRACK)?; Ok((true, s.end.is_some(), s.step.is_some())) }
        else { let idx = spanned(p, expr)?; if p.at(K::COLON) { let s = slice_desc(p, Some(idx))?; p.eat(K::R_BRACK)?; Ok((true, s.end.is_some(), s.step.is_some())) } else { p.eat(K::R_BRACK)?; Ok((false, false, false)) } }
    }
}

#[cfg(kani)]
mod harness {
    use super::*;
    fn any_tokens() -> [K; NTOK] {
        let mut s = [K::EOF; NTOK]; s[0] = K::L_BRACK;
        let mut i = 1; while i < NTOK - 1 { s[i] = match kani::any::<u8>() % 4 { 0 => K::E, 1 => K::COLON, 2 => K::R_BRACK, _ => K::OTHER }; i += 1; }
        s
    }
    #[kani::proof] #[kani::unwind(8)]
    fn h_rowan_slice() {
        let s = any_tokens();
        let mut p = rowan_side::Parser { kinds: s, offset: 0, errors: 0, wrapped_end: false, wrapped_step: false, completed: None, forgotten: false };
        let is_slice = rowan_side::run(&mut p);
        match reference(&s) {
            Some((slice, end, step, used)) => {
                assert!(p.errors == 0, "obligation: the syntax-tree parser reports no error for a suffix the Jsonnet grammar accepts");
                assert!(is_slice == slice && p.offset == used, "obligation: index vs slice is classified as the grammar says and exactly the suffix is consumed");
                assert!(p.wrapped_end == end && p.wrapped_step == step, "obligation: the end and step expressions are labelled as such");
                assert!(if slice { p.completed == Some(K::SLICE_DESC) } else { p.forgotten }, "obligation: a slice produces a SLICE_DESC node, an index none");
            }
            None => assert!(p.errors > 0, "obligation: the syntax-tree parser reports an error for a suffix the Jsonnet grammar rejects"),
        }
        kani::cover!(reference(&s).map_or(false, |r| r.1 && r.2)); kani::cover!(reference(&s).is_none());
        kani::cover!(reference(&s).map_or(false, |r| r.0 && !r.1 && r.2));
    }
    #[kani::proof] #[kani::unwind(8)]
    fn h_ir_slice() {
        let s = any_tokens();
        let mut p = ir_side::Parser { kinds: &s, offset: 0 };
        let got = ir_side::suffix(&mut p);
        match (reference(&s), got) {
            (Some((slice, end, step, used)), Ok((gs, ge, gst))) => assert!(gs == slice && ge == end && gst == step && p.offset == used, "obligation: the evaluator's parser builds the slice the grammar describes (which of start/end/step are present)"),
            (None, Err(_)) => {}
            (Some(_), Err(_)) => panic!("obligation: the evaluator's parser accepts every suffix the Jsonnet grammar accepts"),
            (None, Ok(_)) => panic!("obligation: the evaluator's parser rejects every suffix the Jsonnet grammar rejects"),
        }
        kani::cover!(reference(&s).map_or(false, |r| r.1 && r.2)); kani::cover!(reference(&s).is_none());
    }
}
