// Kani unit cli_opts (C15): the option structs of jrsonnet-cli translated into evaluator settings --
// TlaOpts::tla_opts (-A / --tla-str-file / --tla-code / --tla-code-file), StdOpts::context_initializer (-V / --ext-str-file /
// --ext-code / --ext-code-file) and ManifestOpts::manifest_format (-f / -S / -y / --line-padding).
// Contract: each option feeds the setting of the same name with the variable's NAME as key and its VALUE / PATH as payload,
// tagged with the kind (string, string-from-file, code, code-from-file) the option documents.
#![allow(unused, dead_code, static_mut_refs)]

// ---------------------------------------------------------------- stand-ins (trusted)
/// text of an option: a static str (compared by identity, so a payload cannot be confused with a name of equal spelling)
#[derive(Clone, Copy, Debug, PartialEq)]
pub struct String { p: usize, l: usize }
#[allow(non_snake_case)]
pub fn String(s: &'static str) -> String { String { p: s.as_ptr() as usize, l: s.len() } }
impl String { pub fn as_str(&self) -> &str { unsafe { std::str::from_utf8_unchecked(std::slice::from_raw_parts(self.p as *const u8, self.l)) } } }
impl From<&str> for String { fn from(s: &str) -> Self { String { p: s.as_ptr() as usize, l: s.len() } } }
#[derive(Clone, Copy, Debug)]
pub struct IStr { p: usize, l: usize }
impl From<&str> for IStr { fn from(s: &str) -> Self { IStr { p: s.as_ptr() as usize, l: s.len() } } }
impl IStr { pub fn is(&self, s: &'static str) -> bool { self.p == s.as_ptr() as usize && self.l == s.len() } }
#[derive(Clone, Copy, Debug)] pub struct Val;
#[derive(Clone, Copy, Debug)] pub struct Thunk<T>(pub T);
pub type Result<T> = core::result::Result<T, ()>;
pub struct FxHashMap<K, V> { pub e: [Option<(K, V)>; 4], pub n: usize }
impl<K, V> FxHashMap<K, V> {
    pub fn new() -> Self { FxHashMap { e: [None, None, None, None], n: 0 } }
    pub fn insert(&mut self, k: K, v: V) -> Option<V> { self.e[self.n] = Some((k, v)); self.n += 1; None }
}
pub struct PathResolver; impl PathResolver { pub fn new_cwd_fallback() -> Self { PathResolver } }
pub struct Settings { pub ext_vars: FxHashMap<IStr, TlaArg> }
static mut SETTINGS: Option<Settings> = None;
pub struct ContextInitializer;
impl ContextInitializer {
    pub fn new(_r: PathResolver) -> Self { unsafe { SETTINGS = Some(Settings { ext_vars: FxHashMap::new() }); } ContextInitializer }
    pub fn settings_mut(&self) -> &'static mut Settings { unsafe { SETTINGS.as_mut().unwrap() } }
}
// the manifest formats, as constructor records
#[derive(Clone, Copy, PartialEq, Debug)]
pub enum Fmt { Str, ToStr, Json(usize), Yaml(usize), Toml(usize), Xml, Ini, YamlStreamOf(u8, usize) }
pub trait ManifestFormat { fn id(&self) -> Fmt; }
macro_rules! fmt_standin { ($t:ident, $e:expr) => { pub struct $t; impl ManifestFormat for $t { fn id(&self) -> Fmt { $e } } }; }
fmt_standin!(StringFormat, Fmt::Str); fmt_standin!(ToStringFormat, Fmt::ToStr);
pub struct JsonFormat(usize); impl JsonFormat { pub fn cli(p: usize) -> Self { JsonFormat(p) } } impl ManifestFormat for JsonFormat { fn id(&self) -> Fmt { Fmt::Json(self.0) } }
pub struct YamlFormat(usize); impl YamlFormat { pub fn cli(p: usize) -> Self { YamlFormat(p) } } impl ManifestFormat for YamlFormat { fn id(&self) -> Fmt { Fmt::Yaml(self.0) } }
pub struct TomlFormat(usize); impl TomlFormat { pub fn cli(p: usize) -> Self { TomlFormat(p) } } impl ManifestFormat for TomlFormat { fn id(&self) -> Fmt { Fmt::Toml(self.0) } }
pub struct XmlJsonmlFormat; impl XmlJsonmlFormat { pub fn cli() -> Self { XmlJsonmlFormat } } impl ManifestFormat for XmlJsonmlFormat { fn id(&self) -> Fmt { Fmt::Xml } }
pub struct IniFormat; impl IniFormat { pub fn cli() -> Self { IniFormat } } impl ManifestFormat for IniFormat { fn id(&self) -> Fmt { Fmt::Ini } }
pub struct YamlStreamFormat(Fmt);
impl YamlStreamFormat { pub fn cli(inner: Box<dyn ManifestFormat>) -> Self { YamlStreamFormat(inner.id()) } }
impl ManifestFormat for YamlStreamFormat { fn id(&self) -> Fmt { match self.0 { Fmt::Json(p) => Fmt::YamlStreamOf(0, p), Fmt::Yaml(p) => Fmt::YamlStreamOf(1, p), Fmt::Toml(p) => Fmt::YamlStreamOf(2, p), _ => Fmt::YamlStreamOf(9, 0) } } }

// ---------------------------------------------------------------- extracted real code
//@item crates/jrsonnet-evaluator/src/tla.rs :: enum TlaArg ;; std-derives keep-pub
#[derive(Clone, Copy)]
//@item crates/jrsonnet-cli/src/stdlib.rs :: struct ExtStr ;; keep-pub
#[derive(Clone, Copy)]
//@item crates/jrsonnet-cli/src/stdlib.rs :: struct ExtFile ;; keep-pub
//@item crates/jrsonnet-cli/src/tla.rs :: struct TlaOpts ;; keep-pub
//@item crates/jrsonnet-cli/src/tla.rs :: impl TlaOpts ;; keep-pub
//@item crates/jrsonnet-cli/src/stdlib.rs :: struct StdOpts ;; keep-pub
//@item crates/jrsonnet-cli/src/stdlib.rs :: impl StdOpts ;; keep-pub
#[derive(Clone, Copy, PartialEq)]
//@item crates/jrsonnet-cli/src/manifest.rs :: enum ManifestFormatName ;; keep-pub
//@item crates/jrsonnet-cli/src/manifest.rs :: struct ManifestOpts ;; keep-pub
//@item crates/jrsonnet-cli/src/manifest.rs :: impl ManifestOpts ;; keep-pub

#[cfg(kani)]
mod harness {
    use super::*;
    const N: [&str; 4] = ["a", "b", "c", "d"];          // variable names
    const P: [&str; 4] = ["str-value", "str.txt", "code-value", "code.jsonnet"];   // value / path of each
    fn check(e: &[Option<(IStr, TlaArg)>; 4], n: usize) {
        assert!(n == 4, "obligation: every option given produces one setting");
        let mut seen = [false; 4];
        let mut i = 0;
        while i < 4 {
            let (k, v) = match &e[i] { Some((k, v)) => (k, v), None => panic!("obligation: every option given produces one setting") };
            if k.is(N[0]) { seen[0] = true; assert!(matches!(v, TlaArg::String(s) if s.is(P[0])), "obligation: a string variable carries its VALUE as a string"); }
            else if k.is(N[1]) { seen[1] = true; assert!(matches!(v, TlaArg::ImportStr(s) if *s == String(P[1])), "obligation: a string-from-file variable reads the file at its PATH as a string"); }
            else if k.is(N[2]) { seen[2] = true; assert!(matches!(v, TlaArg::InlineCode(s) if *s == String(P[2])), "obligation: a code variable evaluates its VALUE as code"); }
            else if k.is(N[3]) { seen[3] = true; assert!(matches!(v, TlaArg::Import(s) if *s == String(P[3])), "obligation: a code-from-file variable imports the file at its PATH"); }
            else { panic!("obligation: a setting is keyed by the variable's NAME"); }
            i += 1;
        }
        assert!(seen[0] && seen[1] && seen[2] && seen[3], "obligation: each of the four option kinds reaches the settings");
    }
    #[kani::proof] #[kani::unwind(6)]
    fn h_tla_opts() {
        let o = TlaOpts { tla_str: vec![ExtStr { name: String(N[0]), value: String(P[0]) }], tla_str_file: vec![ExtFile { name: String(N[1]), path: String(P[1]) }],
                          tla_code: vec![ExtStr { name: String(N[2]), value: String(P[2]) }], tla_code_file: vec![ExtFile { name: String(N[3]), path: String(P[3]) }] };
        let m = match o.tla_opts() { Ok(m) => m, Err(_) => panic!("obligation: well-formed options are not an error") };
        check(&m.e, m.n);
        std::mem::forget(o);
    }
    #[kani::proof] #[kani::unwind(6)]
    fn h_ext_vars() {
        let o = StdOpts { no_stdlib: false, ext_str: vec![ExtStr { name: String(N[0]), value: String(P[0]) }], ext_str_file: vec![ExtFile { name: String(N[1]), path: String(P[1]) }],
                          ext_code: vec![ExtStr { name: String(N[2]), value: String(P[2]) }], ext_code_file: vec![ExtFile { name: String(N[3]), path: String(P[3]) }] };
        match o.context_initializer() { Ok(Some(_)) => {}, _ => panic!("obligation: with the standard library enabled a context initializer is produced") };
        unsafe { let s = SETTINGS.as_ref().unwrap(); check(&s.ext_vars.e, s.ext_vars.n); }
        std::mem::forget(o);
        let o = StdOpts { no_stdlib: true, ext_str: vec![], ext_str_file: vec![], ext_code: vec![], ext_code_file: vec![] };
        assert!(matches!(o.context_initializer(), Ok(None)), "obligation: --no-stdlib yields no standard-library initializer");
        std::mem::forget(o);
    }
    #[kani::proof]
    fn h_manifest_format() {
        let f: u8 = kani::any(); kani::assume(f < 7);
        let format = match f { 0 => None, 1 => Some(ManifestFormatName::String), 2 => Some(ManifestFormatName::Json), 3 => Some(ManifestFormatName::Yaml), 4 => Some(ManifestFormatName::Toml), 5 => Some(ManifestFormatName::XmlJsonml), _ => Some(ManifestFormatName::Ini) };
        let string: bool = kani::any(); let yaml_stream: bool = kani::any();
        kani::assume(!(string && format.is_some()) && !(string && yaml_stream));      // clap: conflicts_with
        let pad: Option<usize> = if kani::any() { Some(kani::any()) } else { None };
        let got = ManifestOpts { format, string, yaml_stream, line_padding: pad }.manifest_format().id();
        if string { assert!(got == Fmt::Str, "obligation: -S prints a string result verbatim"); }
        else if !yaml_stream {
            match f {
                0 | 2 => assert!(got == Fmt::Json(pad.unwrap_or(3)), "obligation: the default output is JSON with the requested (default 3) padding"),
                1 => assert!(got == Fmt::ToStr, "obligation: -f string"),
                3 => assert!(got == Fmt::Yaml(pad.unwrap_or(2)), "obligation: -f yaml with the requested (default 2) padding"),
                4 => assert!(got == Fmt::Toml(pad.unwrap_or(2)), "obligation: -f toml with the requested (default 2) padding"),
                5 => assert!(got == Fmt::Xml, "obligation: -f xml-jsonml"),
                _ => assert!(got == Fmt::Ini, "obligation: -f ini"),
            }
        } else {
            match f {
                0 | 3 => assert!(got == Fmt::YamlStreamOf(1, pad.unwrap_or(2)), "obligation: -y is a stream of YAML documents unless -f says otherwise"),
                2 => assert!(got == Fmt::YamlStreamOf(0, pad.unwrap_or(3)), "obligation: -y -f json is a stream of JSON documents"),
                _ => assert!(matches!(got, Fmt::YamlStreamOf(_, _)), "obligation: -y always produces a document stream"),
            }
        }
        kani::cover!(yaml_stream && f == 2); kani::cover!(string); kani::cover!(pad.is_some() && f == 4);
    }
}
