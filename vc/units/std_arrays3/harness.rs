// Kani unit std_arrays3 (C10, C04): std.foldl / std.foldr (order and direction of application, strings as character sequences),
// std.flattenArrays (concatenation in order), std.avg (mean, empty-array rule) and std.makeArray's constant path.
#![allow(unused, dead_code, non_snake_case)]

// ---------------------------------------------------------------- stand-ins (trusted)
#[derive(Debug, Clone, Copy, PartialEq)] pub struct Error;
pub type Result<T> = std::result::Result<T, Error>;
macro_rules! bail { ($l:literal) => { return Err(Error) }; }
#[derive(Debug, Clone, Copy, PartialEq)] pub enum Val { Num(u32), F(f64), Func(FuncVal) }
impl Val { pub fn try_num(v: f64) -> Result<Val> { if v.is_finite() { Ok(Val::F(v)) } else { Err(Error) } } }
#[derive(Debug, Clone, Copy, PartialEq)] pub struct IStr(pub &'static str);
impl std::ops::Deref for IStr { type Target = str; fn deref(&self) -> &str { self.0 } }
pub enum Either2<A, B> { A(A), B(B) }
#[derive(Debug, Clone, Copy, PartialEq)]
pub struct ArrValue { pub items: [u32; 8], pub n: usize }
pub struct AIter { a: ArrValue, lo: usize, hi: usize }
impl Iterator for AIter { type Item = Result<Val>; fn next(&mut self) -> Option<Result<Val>> { if self.lo < self.hi { self.lo += 1; Some(Ok(Val::Num(self.a.items[self.lo - 1]))) } else { None } } }
impl DoubleEndedIterator for AIter { fn next_back(&mut self) -> Option<Result<Val>> { if self.lo < self.hi { self.hi -= 1; Some(Ok(Val::Num(self.a.items[self.hi]))) } else { None } } }
impl ArrValue {
    pub fn of(v: &[u32]) -> Self { let mut a = ArrValue { items: [0; 8], n: v.len() }; let mut i = 0; while i < v.len() { a.items[i] = v[i]; i += 1; } a }
    pub fn iter(&self) -> AIter { AIter { a: *self, lo: 0, hi: self.n } }
    pub fn len(&self) -> usize { self.n }
    pub fn empty() -> Self { ArrValue { items: [0; 8], n: 0 } }
    /// contract of ArrValue::extended (units arr_views / arr_extended): a ++ b
    pub fn extended(a: Self, b: Self) -> Self { let mut o = a; let mut i = 0; while i < b.n { assert!(o.n < 8); o.items[o.n] = b.items[i]; o.n += 1; i += 1; } o }
    pub fn range_exclusive(_a: i32, _b: i32) -> Self { ArrValue::empty() }
    pub fn map(self, _f: FuncVal) -> Self { self }
    pub fn eager(v: Vec<Val>) -> Self { let mut a = ArrValue::empty(); let mut i = 0; while i < v.len() { if let Val::Num(x) = v[i] { a.items[i] = x; } i += 1; } a.n = v.len(); a }
}
/// fold step: a non-commutative, non-associative combine so that order and direction are visible:  acc*10 + elem
pub struct NativeFnS<A, R>(pub std::marker::PhantomData<(A, R)>);
macro_rules! Either { [$a:ty, $b:ty] => { Either2<$a, $b> }; }
macro_rules! NativeFn { (($($a:ty),*) -> $r:ty) => { NativeFnS<($($a,)*), $r> }; }
pub type FoldL = NativeFnS<(Val, Either2<Val, char>,), Val>; pub type FoldR = NativeFnS<(Either2<Val, char>, Val,), Val>;
fn elem(e: Either2<Val, char>) -> u32 { match e { Either2::A(Val::Num(n)) => n, Either2::B(c) => c as u32 - '0' as u32, _ => 0 } }
impl NativeFnS<(Val, Either2<Val, char>,), Val> { pub fn call(&self, acc: Val, e: Either2<Val, char>) -> Result<Val> { if let Val::Num(a) = acc { Ok(Val::Num(a * 10 + elem(e))) } else { Err(Error) } } }
impl NativeFnS<(Either2<Val, char>, Val,), Val> { pub fn call(&self, e: Either2<Val, char>, acc: Val) -> Result<Val> { if let Val::Num(a) = acc { Ok(Val::Num(a * 10 + elem(e))) } else { Err(Error) } } }
#[derive(Debug, Clone, Copy, PartialEq)] pub struct Thunk<T>(pub T);
impl Thunk<Val> { pub fn evaluate(&self) -> Result<Val> { Ok(self.0) } }
#[derive(Debug, Clone, Copy, PartialEq)] pub struct FuncVal { pub trivial: Option<u32> }
impl FuncVal { pub fn evaluate_trivial(&self) -> Option<Val> { self.trivial.map(Val::Num) } }
pub trait FromUntyped: Sized { fn from_untyped(v: Val) -> Result<Self>; }
impl FromUntyped for FuncVal { fn from_untyped(v: Val) -> Result<FuncVal> { match v { Val::Func(f) => Ok(f), _ => Err(Error) } } }
pub struct BoundedI32<const A: i32, const B: i32>(pub i32);
impl<const A: i32, const B: i32> std::ops::Deref for BoundedI32<A, B> { type Target = i32; fn deref(&self) -> &i32 { &self.0 } }
#[derive(Clone, Copy)]
pub struct Vec<T: Copy> { buf: [std::mem::MaybeUninit<T>; 6], len: usize }
impl<T: Copy> Vec<T> {
    pub fn new() -> Self { Vec { buf: [std::mem::MaybeUninit::uninit(); 6], len: 0 } }
    pub fn with_capacity(_c: usize) -> Self { Self::new() }
    pub fn push(&mut self, v: T) { assert!(self.len < 6, "stand-in Vec capacity"); self.buf[self.len].write(v); self.len += 1; }
    pub fn into_iter(self) -> VIter<T> { VIter { v: self, i: 0 } }
}
impl<T: Copy> std::ops::Deref for Vec<T> { type Target = [T]; fn deref(&self) -> &[T] { unsafe { std::slice::from_raw_parts(self.buf.as_ptr() as *const T, self.len) } } }
pub struct VIter<T: Copy> { v: Vec<T>, i: usize }
impl<T: Copy> Iterator for VIter<T> { type Item = T; fn next(&mut self) -> Option<T> { if self.i < self.v.len { self.i += 1; Some(self.v[self.i - 1]) } else { None } } }

// ---------------------------------------------------------------- extracted real code
//@item crates/jrsonnet-stdlib/src/arrays.rs :: fn eval_on_empty ;; keep-pub
//@item crates/jrsonnet-stdlib/src/arrays.rs :: fn builtin_foldl ;; keep-pub
//@item crates/jrsonnet-stdlib/src/arrays.rs :: fn builtin_foldr ;; keep-pub
//@item crates/jrsonnet-stdlib/src/arrays.rs :: fn builtin_flatten_arrays ;; keep-pub
//@item crates/jrsonnet-stdlib/src/arrays.rs :: fn builtin_make_array ;; keep-pub

#[cfg(kani)]
mod harness {
    use super::*;
    #[kani::proof] #[kani::unwind(6)]
    fn h_foldl_foldr() {
        let a = ArrValue::of(&[1, 2, 3]);
        assert!(builtin_foldl(NativeFnS(std::marker::PhantomData), Either2::A(a), Val::Num(9)) == Ok(Val::Num(9123)), "obligation: foldl applies f(acc, x) from the first element to the last, starting from init");
        assert!(builtin_foldr(NativeFnS(std::marker::PhantomData), Either2::A(a), Val::Num(9)) == Ok(Val::Num(9321)), "obligation: foldr applies f(x, acc) from the last element to the first, starting from init");
        assert!(builtin_foldl(NativeFnS(std::marker::PhantomData), Either2::B(IStr("123")), Val::Num(9)) == Ok(Val::Num(9123)) && builtin_foldr(NativeFnS(std::marker::PhantomData), Either2::B(IStr("123")), Val::Num(9)) == Ok(Val::Num(9321)), "obligation: a string is folded character by character in the same directions");
        assert!(builtin_foldl(NativeFnS(std::marker::PhantomData), Either2::A(ArrValue::empty()), Val::Num(7)) == Ok(Val::Num(7)) && builtin_foldr(NativeFnS(std::marker::PhantomData), Either2::A(ArrValue::empty()), Val::Num(7)) == Ok(Val::Num(7)), "obligation: folding an empty array yields init");
    }
    fn check_flatten(n: usize) {
        let parts = [ArrValue::of(&[1, 2]), ArrValue::of(&[]), ArrValue::of(&[3]), ArrValue::of(&[4, 5]), ArrValue::of(&[6])];
        let mut v = Vec::new(); let mut want = ArrValue::empty(); let mut i = 0;
        while i < n { v.push(parts[i]); want = ArrValue::extended(want, parts[i]); i += 1; }
        let got = builtin_flatten_arrays(v);
        assert!(got.n == want.n, "obligation: flattenArrays has the total length of its parts");
        let mut j = 0; while j < want.n { assert!(got.items[j] == want.items[j], "obligation: flattenArrays is the concatenation of the arrays in order"); j += 1; }
    }
    #[kani::proof] #[kani::unwind(8)] fn h_flatten_n012() { check_flatten(0); check_flatten(1); check_flatten(2); }
    #[kani::proof] #[kani::unwind(8)] fn h_flatten_n3() { check_flatten(3); }
    #[kani::proof] #[kani::unwind(8)] fn h_flatten_n4() { check_flatten(4); }
    #[kani::proof] #[kani::unwind(8)] fn h_flatten_n5() { check_flatten(5); }
    #[kani::proof] #[kani::unwind(8)]
    fn h_make_array_constant() {
        let sz: i32 = kani::any(); kani::assume(sz >= 0 && sz <= 5);
        let r = builtin_make_array(BoundedI32(sz), FuncVal { trivial: Some(7) });
        match r { Ok(a) => { assert!(a.n == sz as usize, "obligation: makeArray(n, f) has n elements"); let mut i = 0; while i < a.n { assert!(a.items[i] == 7, "obligation: a constant function fills every element with its value"); i += 1; } } Err(_) => panic!("obligation: a non-negative size is accepted") }
        kani::cover!(sz == 0); kani::cover!(sz == 5);
    }
}
