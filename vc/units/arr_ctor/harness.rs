// Kani unit arr_ctor (C08, C10, C04): ArrValue::slice normalisation, RangeArray, ExtendedArray split.
#![allow(unused, dead_code)]
use std::num::NonZeroU32;

// ---------------------------------------------------------------- stand-ins (trusted)
// Flat record of "which representation was built"; no recursion (no drop glue loops).
#[derive(Debug, Clone, Copy, PartialEq, Eq)]
pub enum Repr { Base, Empty, Slice { inner_len: usize, from: usize, to: usize, step: u32 }, Range { start: i32, end: i32 } }
#[derive(Debug, Clone, Copy)]
pub struct ArrValue { pub len: usize, pub repr: Repr }
pub trait IntoArr { fn into_arr(self) -> ArrValue; }
impl ArrValue {
    pub fn base(len: usize) -> Self { ArrValue { len, repr: Repr::Base } }
    pub fn new<T: IntoArr>(v: T) -> Self { v.into_arr() }
    pub fn len(&self) -> usize { self.len }
}
impl IntoArr for SliceArray {
    fn into_arr(self) -> ArrValue {
        // length is NOT computed here: the harness states what it must be
        ArrValue { len: 0, repr: Repr::Slice { inner_len: self.inner.len, from: self.from as usize, to: self.to as usize, step: self.step } }
    }
}
impl IntoArr for RangeArray {
    fn into_arr(self) -> ArrValue { ArrValue { len: self.len(), repr: Repr::Range { start: self.start, end: self.end } } }
}
#[derive(Debug, Clone, Copy, PartialEq)]
pub enum Val { Num(f64) }
pub struct Thunk<T>(pub T);
impl<T> Thunk<T> { pub fn evaluated(v: T) -> Self { Thunk(v) } }
pub struct Error;
pub type Result<T> = std::result::Result<T, Error>;

// ---------------------------------------------------------------- extracted real code
//@item crates/jrsonnet-evaluator/src/arr/spec.rs :: struct SliceArray ;; keep-pub
//@item crates/jrsonnet-evaluator/src/arr/spec.rs :: struct WithExactSize
//@item crates/jrsonnet-evaluator/src/arr/spec.rs :: impl<I, T> Iterator for WithExactSize<I>
//@item crates/jrsonnet-evaluator/src/arr/spec.rs :: impl<I> DoubleEndedIterator for WithExactSize<I>
//@item crates/jrsonnet-evaluator/src/arr/spec.rs :: impl<I> ExactSizeIterator for WithExactSize<I>
//@item crates/jrsonnet-evaluator/src/arr/spec.rs :: struct RangeArray ;; std-derives keep-pub
//@item crates/jrsonnet-evaluator/src/arr/spec.rs :: impl RangeArray ;; keep-pub
impl RangeArray {
//@item crates/jrsonnet-evaluator/src/arr/spec.rs :: impl ArrayLike for RangeArray > fn len
//@item crates/jrsonnet-evaluator/src/arr/spec.rs :: impl ArrayLike for RangeArray > fn is_empty
//@item crates/jrsonnet-evaluator/src/arr/spec.rs :: impl ArrayLike for RangeArray > fn get
//@item crates/jrsonnet-evaluator/src/arr/spec.rs :: impl ArrayLike for RangeArray > fn get_lazy
//@item crates/jrsonnet-evaluator/src/arr/spec.rs :: impl ArrayLike for RangeArray > fn get_cheap
}
impl ArrValue {
//@item crates/jrsonnet-evaluator/src/arr/mod.rs :: impl ArrValue > fn empty ;; keep-pub
//@item crates/jrsonnet-evaluator/src/arr/mod.rs :: impl ArrValue > fn slice ;; keep-pub
//@item crates/jrsonnet-evaluator/src/arr/mod.rs :: impl ArrValue > fn range_exclusive ;; keep-pub
//@item crates/jrsonnet-evaluator/src/arr/mod.rs :: impl ArrValue > fn range_inclusive ;; keep-pub
}

// ---------------------------------------------------------------- harnesses
#[cfg(kani)]
mod harness {
    use super::*;

    // Jsonnet slice normalisation (std.slice / a[i:j:k] with Python-style negative indices):
    //   idx<0 -> max(len+idx,0); idx>=0 -> min(idx,len); defaults 0 / len / 1
    fn norm(pos: Option<i32>, len: usize, default: usize) -> usize {
        match pos {
            None => default,
            Some(v) if v < 0 => { let back = (-(v as i64)) as u64; if back >= len as u64 { 0 } else { len - back as usize } }
            Some(v) => if (v as u64) < len as u64 { v as usize } else { len },
        }
    }

    /// ArrValue::slice: for every (len, index, end, step) the result is the empty array or a
    /// well-formed SliceArray whose (from,to,step) are exactly the normalised arguments.
    #[kani::proof]
    fn h_slice() {
        let len: usize = kani::any();
        let index: Option<i32> = kani::any();
        let end: Option<i32> = kani::any();
        let step: Option<NonZeroU32> = kani::any();
        let r = ArrValue::base(len).slice(index, end, step);
        let (f, t) = (norm(index, len, 0), norm(end, len, len));
        let s = match step { Some(s) => s.get(), None => 1 };
        if f >= t {
            assert!(r.len == 0 && matches!(r.repr, Repr::Range { .. }), "obligation: empty slice when start >= end");
        } else {
            match r.repr {
                Repr::Slice { inner_len, from, to, step } => {
                    assert!(inner_len == len, "obligation: slice views the sliced array");
                    assert!(from == f && to == t && step == s, "obligation: (from,to,step) are the normalised slice arguments");
                    assert!(from < to && to <= inner_len && step >= 1, "obligation: SliceArray well-formedness (precondition of unit arr_views)");
                }
                _ => panic!("obligation: non-empty slice is a SliceArray"),
            }
        }
        kani::cover!(f < t && len > u32::MAX as usize);
        kani::cover!(f >= t);
    }

    /// RangeArray::new_inclusive(start,end) with start <= end + 1 (call-site precondition of std.range /
    /// std.makeArray): len = end-start+1, element i = start+i, None at or beyond len.
    #[kani::proof]
    fn h_range_inclusive() {
        let start: i32 = kani::any(); let end: i32 = kani::any();
        kani::assume(start as i64 <= end as i64 + 1);
        let r = RangeArray::new_inclusive(start, end);
        let n = (end as i64 - start as i64 + 1) as usize;
        assert!(r.len() == n, "obligation: length of std.range(a,b) is b-a+1");
        assert!(r.is_empty() == (n == 0));
        let i: usize = kani::any();
        let g = r.get_cheap(i);
        if i < n { assert!(g == Some(Val::Num((start as i64 + i as i64) as f64)), "obligation: element i of a range is start+i"); }
        else { assert!(g.is_none(), "obligation: range returns None at or beyond its length"); }
        match r.get(i) { Ok(x) => assert!(x == g), Err(_) => panic!("obligation: range get never errs") }
        assert!(r.get_lazy(i).map(|t| t.0) == g);
        kani::cover!(n == 0);
        kani::cover!(i < n && start < 0);
    }

    /// new_exclusive(a,b) == [a, b) ; empty() is empty
    #[kani::proof]
    fn h_range_exclusive() {
        let start: i32 = kani::any(); let end: i32 = kani::any();
        kani::assume(start <= end);
        let r = RangeArray::new_exclusive(start, end);
        let n = (end as i64 - start as i64) as usize;
        assert!(r.len() == n, "obligation: exclusive range length");
        let i: usize = kani::any();
        let g = r.get_cheap(i);
        if i < n { assert!(g == Some(Val::Num((start as i64 + i as i64) as f64))); } else { assert!(g.is_none()); }
        assert!(RangeArray::empty().len() == 0 && RangeArray::empty().get_cheap(i).is_none());
        assert!(ArrValue::empty().len == 0);
        kani::cover!(n == 0 && end == i32::MIN);
        kani::cover!(i < n);
    }
}
