// Kani unit serde_visit (C05, C04): the scalar arms of the serde visitor behind std.parseJson / parseYaml
// (`impl Visitor for ValVisitor` inside `impl Deserialize for Val`): every number the JSON reader reports must
// become the double nearest to it -- std.parseJson is a left inverse of the JSON manifesters only then.
#![allow(unused, dead_code)]
use std::fmt::{Debug, Display};
use std::ops::Deref;
use std::cmp::Ordering;
use std::fmt;

// ---------------------------------------------------------------- stand-ins (trusted)
pub mod de { pub trait Error: Sized { fn custom(msg: &'static str) -> Self; } }
pub struct DeErr(pub &'static str);
impl de::Error for DeErr { fn custom(msg: &'static str) -> Self { DeErr(msg) } }
#[derive(Clone, Copy, PartialEq, Debug)]
pub struct StrH(pub usize);          // opaque string handle: length only
#[derive(Clone, Copy, PartialEq, Debug)]
pub enum Val { Bool(bool), Null, Num(NumValue), Str(StrH) }
impl Val { pub fn string(s: &str) -> Val { Val::Str(StrH(s.len())) } }
pub struct ValVisitor;

// ---------------------------------------------------------------- extracted real code
//@item crates/jrsonnet-evaluator/src/val.rs :: struct NumValue ;; std-derives keep-pub
impl NumValue {
//@item crates/jrsonnet-evaluator/src/val.rs :: impl NumValue > fn new ;; keep-pub
//@item crates/jrsonnet-evaluator/src/val.rs :: impl NumValue > fn get ;; keep-pub
}
//@item crates/jrsonnet-evaluator/src/val.rs :: impl PartialEq for NumValue
//@item crates/jrsonnet-evaluator/src/val.rs :: impl Debug for NumValue
impl ValVisitor {
//@item crates/jrsonnet-evaluator/src/integrations/serde.rs :: impl<'de> Deserialize<'de> for Val > fn deserialize > impl<'de> Visitor<'de> for ValVisitor > fn visit_bool ;; rename=Self::Value->Val
//@item crates/jrsonnet-evaluator/src/integrations/serde.rs :: impl<'de> Deserialize<'de> for Val > fn deserialize > impl<'de> Visitor<'de> for ValVisitor > fn visit_f64 ;; rename=Self::Value->Val
//@item crates/jrsonnet-evaluator/src/integrations/serde.rs :: impl<'de> Deserialize<'de> for Val > fn deserialize > impl<'de> Visitor<'de> for ValVisitor > fn visit_str ;; rename=Self::Value->Val
//@item crates/jrsonnet-evaluator/src/integrations/serde.rs :: impl<'de> Deserialize<'de> for Val > fn deserialize > impl<'de> Visitor<'de> for ValVisitor > fn visit_i64 ;; rename=Self::Value->Val
//@item crates/jrsonnet-evaluator/src/integrations/serde.rs :: impl<'de> Deserialize<'de> for Val > fn deserialize > impl<'de> Visitor<'de> for ValVisitor > fn visit_u64 ;; rename=Self::Value->Val
//@item crates/jrsonnet-evaluator/src/integrations/serde.rs :: impl<'de> Deserialize<'de> for Val > fn deserialize > impl<'de> Visitor<'de> for ValVisitor > fn visit_none ;; rename=Self::Value->Val
//@item crates/jrsonnet-evaluator/src/integrations/serde.rs :: impl<'de> Deserialize<'de> for Val > fn deserialize > impl<'de> Visitor<'de> for ValVisitor > fn visit_unit ;; rename=Self::Value->Val
}

#[cfg(kani)]
mod harness {
    use super::*;
    fn num(r: Result<Val, DeErr>) -> f64 { match r { Ok(Val::Num(n)) => n.get(), _ => panic!("obligation: an integer token of the JSON reader becomes a number value, never an error or another type") } }
    /// unsigned integer tokens (serde_json reports every non-negative integer literal < 2^64 this way)
    #[kani::proof]
    fn h_visit_u64() {
        let v: u64 = kani::any();
        let n = num(ValVisitor.visit_u64::<DeErr>(v));
        assert!(n == v as f64, "obligation: parseJson of a non-negative integer literal is the double nearest to it");
        assert!(n >= 0.0 && n <= 18446744073709551616.0, "obligation: a non-negative literal never parses to a negative number");
        kani::cover!(v >= (1u64 << 63));
    }
    /// negative integer tokens
    #[kani::proof]
    fn h_visit_i64() {
        let v: i64 = kani::any();
        let n = num(ValVisitor.visit_i64::<DeErr>(v));
        assert!(n == v as f64, "obligation: parseJson of a negative integer literal is the double nearest to it");
        assert!((v < 0) == (n < 0.0), "obligation: sign preserved");
        kani::cover!(v == i64::MIN);
    }
    /// float tokens: finite -> that double bit for bit; inf / nan (out-of-range literal) -> error, never a non-finite value
    #[kani::proof]
    fn h_visit_f64() {
        let v: f64 = kani::any();
        match ValVisitor.visit_f64::<DeErr>(v) {
            Ok(Val::Num(n)) => assert!(v.is_finite() && n.get().to_bits() == v.to_bits(), "obligation: a float literal parses to exactly that double"),
            Ok(_) => panic!("obligation: a float literal parses to a number"),
            Err(_) => assert!(!v.is_finite(), "obligation: only non-finite numbers are rejected"),
        }
        kani::cover!(v.is_finite()); kani::cover!(v.is_nan());
    }
    /// true / false / null and strings keep their kind
    #[kani::proof]
    #[kani::unwind(6)]
    fn h_visit_scalars() {
        let b: bool = kani::any();
        assert!(matches!(ValVisitor.visit_bool::<DeErr>(b), Ok(Val::Bool(x)) if x == b), "obligation: JSON true/false parse to the same boolean");
        assert!(matches!(ValVisitor.visit_none::<DeErr>(), Ok(Val::Null)) && matches!(ValVisitor.visit_unit::<DeErr>(), Ok(Val::Null)), "obligation: JSON null parses to null");
        assert!(matches!(ValVisitor.visit_str::<DeErr>("ab"), Ok(Val::Str(StrH(2)))), "obligation: a JSON string parses to a string value of that text");
        kani::cover!(b);
    }
}
