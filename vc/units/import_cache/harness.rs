// Kani unit import_cache (C07, C16, C04): the per-state file cache protocol of State::import_resolved /
// import_resolved_str / import_resolved_bin: load / parse / evaluate at most once, cycle detection through the
// `evaluating` flag, and recovery after resolver, syntax and evaluation failures.
#![allow(unused, dead_code, static_mut_refs)]
use ::std::cell::{RefCell, RefMut};
use ::std::rc::Rc;
// `std::str::from_utf8` on file contents is replaced by a direct check (contents here are single bytes): a local module
// named `std` shadows the extern prelude for the extracted text; everything else is re-exported unchanged
mod std { pub use ::std::*; pub mod str { pub use ::std::str::*; pub fn from_utf8(d: &crate::Data) -> ::std::result::Result<&'static str, ()> { if d.0.len() == 1 && d.0[0] < 0x80 { Ok(unsafe { ::std::str::from_utf8_unchecked(d.0) }) } else { Err(()) } } } }

// ---------------------------------------------------------------- stand-ins (trusted)
pub type SourcePath = u8;
#[derive(Debug, Clone, Copy, PartialEq, Eq)]
pub struct IStr(pub &'static str);
#[derive(Debug, Clone, Copy, PartialEq, Eq)]
pub struct IBytes(pub &'static [u8]);
impl From<&'static str> for IStr { fn from(s: &'static str) -> Self { IStr(s) } }
impl From<&'static [u8]> for IBytes { fn from(s: &'static [u8]) -> Self { IBytes(s) } }
impl IStr { pub fn cast_bytes(self) -> IBytes { IBytes(self.0.as_bytes()) } }
impl IBytes { pub fn cast_str(self) -> Option<IStr> { if self.0.len() == 1 && self.0[0] < 0x80 { Some(IStr(unsafe { ::std::str::from_utf8_unchecked(self.0) })) } else { None } } }   // contract of IBytes::cast_str (unit interner)
#[derive(Debug, Clone, Copy, PartialEq, Eq)]
pub struct Data(pub &'static [u8]);
impl Data { pub fn as_slice(&self) -> &'static [u8] { self.0 } }
#[derive(Debug, Clone, Copy, PartialEq, Eq)]
pub struct Val(pub u8);
#[derive(Debug, Clone, Copy, PartialEq, Eq)]
pub struct Expr(pub u8);
#[derive(Debug, Clone, Copy, PartialEq, Eq)]
pub struct Source(pub SourcePath);
impl Source { pub fn new(p: SourcePath, _code: IStr) -> Self { Source(p) } }
#[derive(Debug, Clone, Copy, PartialEq, Eq)]
pub struct SyntaxError;
#[derive(Debug, Clone, PartialEq, Eq)]
pub enum ErrorKind { ImportBadFileUtf8(SourcePath), ImportSyntaxError { path: Source, error: Box<SyntaxError> }, InfiniteRecursionDetected, ImportIo, Runtime(u8) }
pub use ErrorKind::*;
#[derive(Debug, Clone, PartialEq, Eq)]
pub struct Error(pub ErrorKind);
impl From<ErrorKind> for Error { fn from(k: ErrorKind) -> Self { Error(k) } }
pub type Result<T> = std::result::Result<T, Error>;
macro_rules! bail { ($w:ident$(::$i:ident)*$(($($tt:tt)*))?) => { return Err($w$(::$i)*$(($($tt)*))?.into()) }; }

/// 2-slot map with the std HashMap entry API used by the real code
pub struct FxHashMap<K, V> { pub slots: [Option<(K, V)>; 2] }
pub enum Entry<'a, K, V> { Occupied(OccupiedEntry<'a, K, V>), Vacant(VacantEntry<'a, K, V>) }
pub struct OccupiedEntry<'a, K, V> { slot: &'a mut Option<(K, V)> }
pub struct VacantEntry<'a, K, V> { slot: &'a mut Option<(K, V)>, key: K }
impl<K: PartialEq + Copy, V> FxHashMap<K, V> {
    pub fn entry(&mut self, k: K) -> Entry<'_, K, V> {
        let hit0 = matches!(&self.slots[0], Some((kk, _)) if *kk == k); let hit1 = matches!(&self.slots[1], Some((kk, _)) if *kk == k);
        let [s0, s1] = &mut self.slots;
        if hit0 { Entry::Occupied(OccupiedEntry { slot: s0 }) } else if hit1 { Entry::Occupied(OccupiedEntry { slot: s1 }) }
        else if s0.is_none() { Entry::Vacant(VacantEntry { slot: s0, key: k }) } else { assert!(s1.is_none(), "stand-in map full"); Entry::Vacant(VacantEntry { slot: s1, key: k }) }
    }
}
impl<'a, K, V> OccupiedEntry<'a, K, V> { pub fn get_mut(&mut self) -> &mut V { &mut self.slot.as_mut().unwrap().1 } }
impl<'a, K, V> VacantEntry<'a, K, V> { pub fn insert(self, v: V) -> &'a mut V { *self.slot = Some((self.key, v)); &mut self.slot.as_mut().unwrap().1 } }

// instrumentation: what the outside world (resolver, parser, evaluator) does, per file 0 / 1
pub static mut LOADS: [u8; 2] = [0; 2];
pub static mut PARSES: [u8; 2] = [0; 2];
pub static mut EVALS: [u8; 2] = [0; 2];
pub static mut LOAD_FAILS_LEFT: [u8; 2] = [0; 2];      // the resolver fails this many times, then recovers
pub static mut EVAL_FAILS_LEFT: [u8; 2] = [0; 2];
pub static mut PARSE_FAILS: [bool; 2] = [false; 2];
pub static mut BAD_UTF8: bool = false;                  // file 0 holds b"\xff" instead of b"1"
pub static mut DEPTH: u8 = 0;
pub static mut REENTER: bool = false;                   // evaluating file 0 imports file 0 again (strict cycle)
pub static mut REENTRY_RESULT: Option<Result<Val>> = None;
pub static mut STATE: Option<State> = None;
pub struct Resolver;
impl Resolver { pub fn load_file_contents(&self, p: &SourcePath) -> Result<Data> { unsafe { let i = *p as usize; LOADS[i] += 1; if LOAD_FAILS_LEFT[i] > 0 { LOAD_FAILS_LEFT[i] -= 1; return Err(Error(ImportIo)); } Ok(Data(if *p == 0 { if BAD_UTF8 { b"\xff" } else { b"1" } } else { b"2" })) } } }
pub fn parse_jsonnet(_code: &IStr, src: Source) -> std::result::Result<Expr, SyntaxError> { unsafe { let i = src.0 as usize; PARSES[i] += 1; if PARSE_FAILS[i] { Err(SyntaxError) } else { Ok(Expr(src.0)) } } }
#[derive(Clone, Copy)]
pub struct Context(pub u8);
pub fn evaluate(_ctx: Context, e: &Expr) -> Result<Val> {
    unsafe {
        let i = e.0 as usize; EVALS[i] += 1;
        if REENTER && DEPTH == 0 { DEPTH = 1; if let Some(s) = &STATE { REENTRY_RESULT = Some(s.import_resolved(0)); } DEPTH = 0; }
        if EVAL_FAILS_LEFT[i] > 0 { EVAL_FAILS_LEFT[i] -= 1; return Err(Error(Runtime(e.0))); }
        Ok(Val(10 + e.0))
    }
}
pub struct EvaluationStateInternals { pub file_cache: RefCell<FxHashMap<SourcePath, FileData>> }
#[derive(Clone)]
pub struct State(pub Rc<EvaluationStateInternals>);
impl State {
    pub fn import_resolver(&self) -> &Resolver { &Resolver }
    pub fn create_default_context(&self, s: Source) -> Context { Context(s.0) }
}

// ---------------------------------------------------------------- extracted real code
//@item crates/jrsonnet-evaluator/src/lib.rs :: struct FileData
//@item crates/jrsonnet-evaluator/src/lib.rs :: impl FileData
impl State {
//@item crates/jrsonnet-evaluator/src/lib.rs :: impl State #* > fn file_cache
//@item crates/jrsonnet-evaluator/src/lib.rs :: impl State #* > fn import_resolved_str ;; keep-pub
//@item crates/jrsonnet-evaluator/src/lib.rs :: impl State #* > fn import_resolved_bin ;; keep-pub
//@item crates/jrsonnet-evaluator/src/lib.rs :: impl State #* > fn import_resolved ;; keep-pub
}

#[cfg(kani)]
mod harness {
    use super::*;
    fn fresh() -> State { let s = State(Rc::new(EvaluationStateInternals { file_cache: RefCell::new(FxHashMap { slots: [None, None] }) })); unsafe { STATE = Some(s.clone()); } s }

    /// import of one file, repeated: read / parsed / evaluated at most once when it succeeds; a resolver, syntax or
    /// evaluation failure surfaces as that error and leaves the state usable: the retry behaves as in a fresh state
    #[kani::proof]
    #[kani::unwind(4)]
    fn h_import_twice() {
        let s = fresh();
        let (lf, ef): (bool, bool) = (kani::any(), kani::any());
        let pf: bool = kani::any();
        unsafe { LOAD_FAILS_LEFT[0] = lf as u8; EVAL_FAILS_LEFT[0] = ef as u8; PARSE_FAILS[0] = pf; }
        let r1 = s.import_resolved(0);
        let r2 = s.import_resolved(0);
        let r3 = s.import_resolved(0);
        unsafe {
            if lf { assert!(r1 == Err(Error(ImportIo)), "obligation: a resolver failure surfaces as an error"); }
            else if pf { assert!(matches!(r1, Err(Error(ImportSyntaxError { .. }))), "obligation: a syntax error in the imported file is reported"); }
            else if ef { assert!(r1 == Err(Error(Runtime(0))), "obligation: an evaluation error of the imported file is reported"); }
            else { assert!(r1 == Ok(Val(10)), "obligation: import yields the file's value"); }
            if pf { assert!(matches!(r3, Err(Error(ImportSyntaxError { .. }))) && EVALS[0] == 0, "obligation: a file with a syntax error is never evaluated"); }
            else {
                assert!(r3 == Ok(Val(10)), "obligation: after the failures have cleared, importing behaves as in a fresh state (no stale 'evaluating' / half-filled entry)");
                assert!(LOADS[0] == 1 + lf as u8 && PARSES[0] == 1, "obligation: a file is read once (plus failed attempts) and parsed once per state");
                assert!(EVALS[0] == 1 + ef as u8, "obligation: a file is evaluated once; only a FAILED evaluation is repeated");
                if !lf && !ef { assert!(r2 == Ok(Val(10))); } 
            }
        }
        kani::cover!(lf && ef && !pf);
        kani::cover!(pf);
    }

    /// strict import cycle: the inner import of the file being evaluated is an infinite-recursion error, the outer import
    /// still completes (or fails with its own error), and the file is importable afterwards
    #[kani::proof]
    #[kani::unwind(4)]
    fn h_import_cycle() {
        let s = fresh();
        unsafe { REENTER = true; EVAL_FAILS_LEFT[0] = 0; }
        let r1 = s.import_resolved(0);
        unsafe {
            assert!(REENTRY_RESULT == Some(Err(Error(InfiniteRecursionDetected))), "obligation: a strict import cycle is reported as infinite recursion");
            assert!(r1 == Ok(Val(10)) && EVALS[0] == 1, "obligation: the outer evaluation is not disturbed by the failed inner import");
            REENTER = false;
        }
        assert!(s.import_resolved(0) == Ok(Val(10)), "obligation: state usable after a cycle error");
        assert!(s.import_resolved(1) == Ok(Val(11)), "obligation: later imports of other files behave as in a fresh state");
        kani::cover!(true);
    }

    /// import / importstr / importbin of the same file share one read; importstr and importbin return the exact contents;
    /// non-UTF-8 files fail for import and importstr but load as binary
    #[kani::proof]
    #[kani::unwind(4)]
    fn h_kinds() {
        let s = fresh();
        let bad: bool = kani::any();
        unsafe { BAD_UTF8 = bad; }
        let order: u8 = kani::any(); kani::assume(order < 3);
        let (mut rs, mut rb, mut ri) = (None, None, None);
        match order { 0 => { rs = Some(s.import_resolved_str(0)); rb = Some(s.import_resolved_bin(0)); ri = Some(s.import_resolved(0)); }
                      1 => { rb = Some(s.import_resolved_bin(0)); ri = Some(s.import_resolved(0)); rs = Some(s.import_resolved_str(0)); }
                      _ => { ri = Some(s.import_resolved(0)); rs = Some(s.import_resolved_str(0)); rb = Some(s.import_resolved_bin(0)); } }
        unsafe {
            assert!(rb.unwrap() == Ok(IBytes(if bad { b"\xff" } else { b"1" })), "obligation: importbin returns the file's exact contents");
            if bad { assert!(rs.unwrap() == Err(Error(ImportBadFileUtf8(0))) && ri.unwrap() == Err(Error(ImportBadFileUtf8(0))), "obligation: a non-UTF-8 file is an error for import and importstr"); }
            else { assert!(rs.unwrap() == Ok(IStr("1")) && ri.unwrap() == Ok(Val(10)), "obligation: importstr returns the exact text, import the value"); }
            assert!(LOADS[0] == 1 || (bad && order != 1 && LOADS[0] <= 3), "obligation: each distinct file is read at most once per state (a file rejected before being cached may be re-read)");
        }
        kani::cover!(bad && order == 1);
        kani::cover!(!bad && order == 2);
    }
}
