// Kani unit pick_object (C13, C08, C03, C04): std.objectValues* / objectKeysValues* array views over an object.
#![allow(unused, dead_code, static_mut_refs)]

// ---------------------------------------------------------------- stand-ins (trusted)
pub type IStr = u8;
#[derive(Debug, Clone, Copy, PartialEq, Eq)]
pub struct Error(pub u8);
pub type Result<T> = std::result::Result<T, Error>;
static mut READS: [u8; 4] = [0; 4];             // how often field k was evaluated
#[derive(Debug, Clone, Copy, PartialEq, Eq)]
pub enum Val { Field(u8), Pair { key: u8, value_evaluated: bool } }
#[derive(Debug, Clone, Copy, PartialEq, Eq)]
pub struct Thunk<T> { pub lazy_field: Option<u8>, pub done: Option<T> }
impl Thunk<Val> {
    pub fn evaluated(v: Val) -> Self { Thunk { lazy_field: None, done: Some(v) } }
    pub fn evaluate(&self) -> Result<Val> { match (self.done, self.lazy_field) { (Some(v), _) => Ok(v), (None, Some(k)) => ObjValue.get_or_bail(k), _ => panic!() } }
}
#[derive(Debug, Clone, Copy)]
pub struct ObjValue;
impl ObjValue {
    pub fn get_or_bail(&self, k: IStr) -> Result<Val> { unsafe { READS[k as usize] += 1; } if k == 3 { Err(Error(3)) } else { Ok(Val::Field(k)) } }
    pub fn get_lazy_or_bail(&self, k: IStr) -> Thunk<Val> { Thunk { lazy_field: Some(k), done: None } }
}
/// #[derive(Typed, IntoUntyped)] struct KeyValue { key, value } -> an object {key, value}: the stand-in records whether the
/// value thunk was already evaluated when the pair was built
pub struct KeyValue { pub key: IStr, pub value: Thunk<Val> }
impl KeyValue { pub fn into_untyped(kv: KeyValue) -> Result<Val> { Ok(Val::Pair { key: kv.key, value_evaluated: kv.value.done.is_some() }) } }
#[derive(Debug, Clone, Copy)]
pub struct Vec<T: Copy> { pub buf: [T; 3], pub len: usize }
impl<T: Copy> Vec<T> { pub fn len(&self) -> usize { self.len } pub fn get(&self, i: usize) -> Option<&T> { if i < self.len { Some(&self.buf[i]) } else { None } } }

// ---------------------------------------------------------------- extracted real code
//@item crates/jrsonnet-evaluator/src/arr/spec.rs :: struct PickObjectValues ;; keep-pub
//@item crates/jrsonnet-evaluator/src/arr/spec.rs :: impl PickObjectValues ;; keep-pub
impl PickObjectValues {
//@item crates/jrsonnet-evaluator/src/arr/spec.rs :: impl ArrayLike for PickObjectValues > fn len
//@item crates/jrsonnet-evaluator/src/arr/spec.rs :: impl ArrayLike for PickObjectValues > fn get
//@item crates/jrsonnet-evaluator/src/arr/spec.rs :: impl ArrayLike for PickObjectValues > fn get_lazy
//@item crates/jrsonnet-evaluator/src/arr/spec.rs :: impl ArrayLike for PickObjectValues > fn get_cheap
}
//@item crates/jrsonnet-evaluator/src/arr/spec.rs :: struct PickObjectKeyValues ;; keep-pub
//@item crates/jrsonnet-evaluator/src/arr/spec.rs :: impl PickObjectKeyValues ;; keep-pub
impl PickObjectKeyValues {
//@item crates/jrsonnet-evaluator/src/arr/spec.rs :: impl ArrayLike for PickObjectKeyValues > fn len
//@item crates/jrsonnet-evaluator/src/arr/spec.rs :: impl ArrayLike for PickObjectKeyValues > fn get
//@item crates/jrsonnet-evaluator/src/arr/spec.rs :: impl ArrayLike for PickObjectKeyValues > fn get_lazy
//@item crates/jrsonnet-evaluator/src/arr/spec.rs :: impl ArrayLike for PickObjectKeyValues > fn get_cheap
}

#[cfg(kani)]
mod harness {
    use super::*;
    fn keys() -> Vec<IStr> { let n: usize = kani::any(); kani::assume(n <= 3); Vec { buf: [1, 2, 3], len: n } }    // field 3 fails when evaluated
    fn reads() -> [u8; 4] { unsafe { READS } }

    /// std.objectValues: element i is the value of the i-th listed field; None at or beyond the length; building the view and
    /// taking a lazy element evaluate nothing (values stay unevaluated where not needed)
    #[kani::proof]
    fn h_values() {
        let ks = keys(); let n = ks.len;
        let v = PickObjectValues::new(ObjValue, ks);
        assert!(v.len() == n && reads() == [0; 4], "obligation: the view has one element per listed field and evaluates nothing");
        let i: usize = kani::any(); kani::assume(i < 5);
        let lz = v.get_lazy(i);
        assert!(reads() == [0; 4] && lz.is_some() == (i < n) && v.get_cheap(i).is_none(), "obligation: a lazy element is in bounds iff i < len and evaluates nothing");
        let r = v.get(i);
        if i >= n { assert!(r == Ok(None) && reads() == [0; 4], "obligation: None at or beyond the length"); }
        else { let k = (i + 1) as u8; assert!(r == if k == 3 { Err(Error(3)) } else { Ok(Some(Val::Field(k))) }, "obligation: element i is the value of field i"); let mut w = [0u8; 4]; w[k as usize] = 1; assert!(reads() == w, "obligation: only the requested field is evaluated, once"); }
        kani::cover!(i == 2 && n == 3);
        kani::cover!(i >= n);
    }

    /// std.objectKeysValues: {key, value} pairs; the lazy form does not evaluate the value
    #[kani::proof]
    fn h_key_values() {
        let ks = keys(); let n = ks.len;
        let v = PickObjectKeyValues::new(ObjValue, ks);
        let i: usize = kani::any(); kani::assume(i < 5);
        assert!(v.len() == n);
        let lz = v.get_lazy(i);
        assert!(reads() == [0; 4], "obligation: lazy key/value pair leaves the value unevaluated");
        match lz { Some(t) => { assert!(i < n); assert!(t.evaluate() == Ok(Val::Pair { key: (i + 1) as u8, value_evaluated: false }), "obligation: lazy pair carries the right key and an unevaluated value"); } None => assert!(i >= n) }
        let r = v.get(i);
        if i >= n { assert!(r == Ok(None), "obligation: None at or beyond the length"); }
        else if i == 2 { assert!(r == Err(Error(3)), "obligation: a failing field value fails the strict read"); }
        else { assert!(r == Ok(Some(Val::Pair { key: (i + 1) as u8, value_evaluated: true })), "obligation: strict pair has the right key and value"); }
        kani::cover!(i < n);
    }
}
