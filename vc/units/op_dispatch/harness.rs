// Kani unit op_dispatch (C01, C04): binary / unary operator dispatch on operand TYPES against the Jsonnet operator table,
// and the short-circuit evaluation of && / || -- loop-free, every operator x every pair of operand types, symbolic payloads.
//@include eval_prelude.rs

// ------------------------------------------------------------ extracted real code
//@item crates/jrsonnet-ir/src/expr.rs :: enum BinaryOpType ;; std-derives keep-pub
//@item crates/jrsonnet-ir/src/expr.rs :: enum UnaryOpType ;; std-derives keep-pub
//@item crates/jrsonnet-evaluator/src/typed/conversions.rs :: const MAX_SAFE_INTEGER ;; keep-pub
//@item crates/jrsonnet-evaluator/src/typed/conversions.rs :: const MIN_SAFE_INTEGER ;; keep-pub
//@item crates/jrsonnet-evaluator/src/val.rs :: struct NumValue ;; std-derives keep-pub
//@item crates/jrsonnet-evaluator/src/val.rs :: impl NumValue ;; keep-pub
//@item crates/jrsonnet-evaluator/src/val.rs :: impl PartialEq for NumValue
//@item crates/jrsonnet-evaluator/src/val.rs :: impl Eq for NumValue
//@item crates/jrsonnet-evaluator/src/val.rs :: impl Ord for NumValue
//@item crates/jrsonnet-evaluator/src/val.rs :: impl PartialOrd for NumValue
//@item crates/jrsonnet-evaluator/src/val.rs :: impl Deref for NumValue
//@item crates/jrsonnet-evaluator/src/val.rs :: impl Debug for NumValue
//@item crates/jrsonnet-evaluator/src/val.rs :: impl Display for NumValue
//@item crates/jrsonnet-evaluator/src/val.rs :: enum ConvertNumValueError ;; std-derives keep-pub
//@item crates/jrsonnet-evaluator/src/val.rs :: impl From<ConvertNumValueError> for Error
//@item crates/jrsonnet-evaluator/src/val.rs :: macro_rules! impl_num
impl_num!(i8, u8, i16, u16, i32, u32);
//@item crates/jrsonnet-evaluator/src/val.rs :: macro_rules! impl_try_num
impl_try_num!(usize, isize, i64, u64);
//@item crates/jrsonnet-evaluator/src/val.rs :: impl TryFrom<f64> for NumValue
//@item crates/jrsonnet-evaluator/src/val.rs :: enum Val ;; std-derives keep-pub
impl Val {
//@item crates/jrsonnet-evaluator/src/val.rs :: impl Val > fn value_type ;; keep-pub
//@item crates/jrsonnet-evaluator/src/val.rs :: impl Val > fn try_num ;; keep-pub
//@item crates/jrsonnet-evaluator/src/val.rs :: impl Val > fn string ;; keep-pub
//@item crates/jrsonnet-evaluator/src/val.rs :: impl Val > fn manifest ;; keep-pub
//@item crates/jrsonnet-evaluator/src/val.rs :: impl Val > fn to_string ;; keep-pub
}
//@item crates/jrsonnet-evaluator/src/val.rs :: fn is_function_like
//@item crates/jrsonnet-evaluator/src/val.rs :: fn primitive_equals ;; keep-pub
//@item crates/jrsonnet-evaluator/src/val.rs :: fn equals ;; keep-pub
//@item crates/jrsonnet-evaluator/src/evaluate/operator.rs :: fn evaluate_unary_op ;; keep-pub
//@item crates/jrsonnet-evaluator/src/evaluate/operator.rs :: fn evaluate_add_op ;; keep-pub
//@item crates/jrsonnet-evaluator/src/evaluate/operator.rs :: fn evaluate_sub_op ;; keep-pub
//@item crates/jrsonnet-evaluator/src/evaluate/operator.rs :: fn evaluate_mul_op ;; keep-pub
//@item crates/jrsonnet-evaluator/src/evaluate/operator.rs :: fn is_attempt_to_divide_by_zero
//@item crates/jrsonnet-evaluator/src/evaluate/operator.rs :: fn evaluate_div_op ;; keep-pub
//@item crates/jrsonnet-evaluator/src/evaluate/operator.rs :: fn evaluate_mod_op ;; keep-pub
//@item crates/jrsonnet-evaluator/src/evaluate/operator.rs :: fn evaluate_compare_op ;; keep-pub
//@item crates/jrsonnet-evaluator/src/evaluate/operator.rs :: fn evaluate_binary_op_normal ;; keep-pub
use std::ops::Deref;
use std::fmt::{self, Debug, Display};

// ---- stand-ins for the short-circuit wrapper (trusted): an expression is a handle, `evaluate` is scripted and logs its calls
#[derive(Debug, Clone)]
pub struct Context;
#[derive(Debug, Clone, Copy, PartialEq, Eq)]
pub struct Expr(pub u8);
pub static mut EVAL_LOG: [u8; 4] = [0; 4];
pub static mut EVAL_N: usize = 0;
pub static mut SCRIPT: [Option<Result<Val>>; 2] = [None, None];
pub fn evaluate(_ctx: Context, e: &Expr) -> Result<Val> {
    unsafe {
        if EVAL_N < 4 { EVAL_LOG[EVAL_N] = e.0; }
        EVAL_N += 1;
        match &SCRIPT[e.0 as usize] { Some(r) => r.clone(), None => panic!("obligation: evaluate called on an expression the harness did not script") }
    }
}
//@item crates/jrsonnet-evaluator/src/evaluate/operator.rs :: fn evaluate_binary_op_special ;; keep-pub

// ------------------------------------------------------------ harnesses
#[cfg(kani)]
mod harness {
    extern crate alloc;
    use super::*;
    use BinaryOpType::*;
    use ValType as T;

    fn stub_format(_a: std::fmt::Arguments<'_>) -> String { String::new() }
    fn finite() -> f64 { let x: f64 = kani::any(); kani::assume(x.is_finite()); x }

    /// a value of the given type with a symbolic payload (arrays / objects / functions are opaque handles)
    fn val_of(t: ValType) -> Val {
        match t {
            T::Bool => Val::Bool(kani::any()),
            T::Null => Val::Null,
            T::Str => Val::Str(StrValue(IStr(if kani::any() { "" } else { "a" }))),
            T::Num => Val::Num(match NumValue::new(finite()) { Some(n) => n, None => panic!("obligation: NumValue::new rejects a finite value") }),
            T::Arr => Val::Arr(ArrValue(kani::any())),
            T::Obj => Val::Obj(ObjValue(kani::any())),
            T::Func => Val::Func(FuncVal),
        }
    }
    fn any_type() -> ValType {
        let k: u8 = kani::any(); kani::assume(k < 7);
        match k { 0 => T::Bool, 1 => T::Null, 2 => T::Str, 3 => T::Num, 4 => T::Arr, 5 => T::Obj, _ => T::Func }
    }
    fn type_of(v: &Val) -> ValType {
        match v { Val::Bool(_) => T::Bool, Val::Null => T::Null, Val::Str(_) => T::Str, Val::Num(_) => T::Num, Val::Arr(_) => T::Arr, Val::Obj(_) => T::Obj, Val::Func(_) => T::Func }
    }

    /// The Jsonnet operator table (language specification, "Binary operators" after desugaring): for an operator and the
    /// types of its two operands, either the type of the result (`Some(t)`, where the operation itself may still fail, e.g.
    /// overflow or division by zero) or `None`: the operation is a type error.  `may_fail` = the operation can fail on values of
    /// the right types.  Written from the specification, not from the code.
    fn table(op: BinaryOpType, a: ValType, b: ValType) -> (Option<ValType>, bool) {
        match op {
            Add => match (a, b) {
                (T::Num, T::Num) => (Some(T::Num), true),
                (T::Str, T::Str) => (Some(T::Str), false),
                // string + anything / anything + string: toString of the other side (fails for functions)
                (T::Str, o) | (o, T::Str) => (Some(T::Str), o == T::Func || o == T::Arr || o == T::Obj),
                (T::Arr, T::Arr) => (Some(T::Arr), false),
                (T::Obj, T::Obj) => (Some(T::Obj), false),
                _ => (None, true),
            },
            Sub | Mul | Div => match (a, b) { (T::Num, T::Num) => (Some(T::Num), true), _ => (None, true) },
            Mod => match (a, b) { (T::Num, T::Num) => (Some(T::Num), true), (T::Str, _) => (Some(T::Str), true), _ => (None, true) },
            Lt | Gt | Lte | Gte => match (a, b) {
                (T::Num, T::Num) | (T::Str, T::Str) => (Some(T::Bool), false),
                (T::Arr, T::Arr) => (Some(T::Bool), true),
                _ => (None, true),
            },
            Eq | Neq => match (a, b) {
                (T::Func, T::Func) => (None, true),                    // "cannot test equality of functions"
                (T::Arr, T::Arr) | (T::Obj, T::Obj) => (Some(T::Bool), true), // element / field evaluation may fail
                _ => (Some(T::Bool), false),
            },
            In => match (a, b) { (T::Str, T::Obj) => (Some(T::Bool), false), _ => (None, true) },
            And | Or => match (a, b) { (T::Bool, T::Bool) => (Some(T::Bool), false), _ => (None, true) },
            BitAnd | BitOr | BitXor | Lhs | Rhs => match (a, b) { (T::Num, T::Num) => (Some(T::Num), true), _ => (None, true) },
        }
    }

    fn is_str_num(a: ValType, b: ValType) -> bool { (a == T::Str && b == T::Num) || (a == T::Num && b == T::Str) }
    fn check_op(op: BinaryOpType) {
        let (ta, tb) = (any_type(), any_type());
        // string * number is checked by its own harness (h_tab_mul_str_num), so that the recorded finding about it is keyed
        // by that harness alone and every other deviation of `*` is still reported here
        kani::assume(!(op == Mul && is_str_num(ta, tb)));
        check_op_on(op, ta, tb);
    }
    fn check_op_on(op: BinaryOpType, ta: ValType, tb: ValType) {
        let (a, b) = (val_of(ta), val_of(tb));
        let r = evaluate_binary_op_normal(&a, op, &b);
        let (res_t, may_fail) = table(op, ta, tb);
        match (&r, res_t) {
            (Ok(v), Some(t)) => assert!(type_of(v) == t, "obligation: the result of a binary operator has the type the Jsonnet operator table gives"),
            (Ok(_), None) => panic!("obligation: an operator applied to operand types outside the Jsonnet operator table is an error"),
            (Err(_), Some(_)) => assert!(may_fail, "obligation: an operator that is total on these operand types returns a value"),
            (Err(_), None) => {}
        }
        kani::cover!(r.is_ok());
        kani::cover!(r.is_err());
    }
    #[kani::proof]
    #[kani::stub(alloc::fmt::format, stub_format)]
    fn h_tab_add() { check_op(Add); }
    #[kani::proof]
    #[kani::stub(alloc::fmt::format, stub_format)]
    fn h_tab_sub() { check_op(Sub); }
    #[kani::proof]
    #[kani::stub(alloc::fmt::format, stub_format)]
    #[kani::unwind(2)]
    fn h_tab_mul() { check_op(Mul); }
    #[kani::proof]
    #[kani::stub(alloc::fmt::format, stub_format)]
    fn h_tab_div() { check_op(Div); }
    #[kani::proof]
    #[kani::stub(alloc::fmt::format, stub_format)]
    fn h_tab_mod() { check_op(Mod); }
    #[kani::proof]
    #[kani::stub(alloc::fmt::format, stub_format)]
    #[kani::unwind(2)]
    fn h_tab_lt() { check_op(Lt); }
    #[kani::proof]
    #[kani::stub(alloc::fmt::format, stub_format)]
    #[kani::unwind(2)]
    fn h_tab_gt() { check_op(Gt); }
    #[kani::proof]
    #[kani::stub(alloc::fmt::format, stub_format)]
    #[kani::unwind(2)]
    fn h_tab_lte() { check_op(Lte); }
    #[kani::proof]
    #[kani::stub(alloc::fmt::format, stub_format)]
    #[kani::unwind(2)]
    fn h_tab_gte() { check_op(Gte); }
    #[kani::proof]
    #[kani::stub(alloc::fmt::format, stub_format)]
    #[kani::unwind(2)]
    fn h_tab_eq() { check_op(Eq); }
    #[kani::proof]
    #[kani::stub(alloc::fmt::format, stub_format)]
    #[kani::unwind(2)]
    fn h_tab_neq() { check_op(Neq); }
    #[kani::proof]
    #[kani::stub(alloc::fmt::format, stub_format)]
    fn h_tab_in() { check_op(In); }
    #[kani::proof]
    #[kani::stub(alloc::fmt::format, stub_format)]
    fn h_tab_and() { check_op(And); }
    #[kani::proof]
    #[kani::stub(alloc::fmt::format, stub_format)]
    fn h_tab_or() { check_op(Or); }
    #[kani::proof]
    #[kani::stub(alloc::fmt::format, stub_format)]
    fn h_tab_bitand() { check_op(BitAnd); }
    #[kani::proof]
    #[kani::stub(alloc::fmt::format, stub_format)]
    fn h_tab_bitor() { check_op(BitOr); }
    #[kani::proof]
    #[kani::stub(alloc::fmt::format, stub_format)]
    fn h_tab_bitxor() { check_op(BitXor); }
    #[kani::proof]
    #[kani::stub(alloc::fmt::format, stub_format)]
    fn h_tab_shl() { check_op(Lhs); }
    #[kani::proof]
    #[kani::stub(alloc::fmt::format, stub_format)]
    fn h_tab_shr() { check_op(Rhs); }

    #[kani::proof]
    #[kani::stub(alloc::fmt::format, stub_format)]
    #[kani::unwind(6)]
    fn h_tab_mul_str_num() {
        // concrete repeat count (the loop inside str::repeat must stay bounded for CBMC); the obligation is about TYPES
        let n = Val::Num(NumValue::new(2.0).unwrap()); let s = Val::Str(StrValue(IStr("a")));
        let swap: bool = kani::any();
        let r = if swap { evaluate_binary_op_normal(&n, Mul, &s) } else { evaluate_binary_op_normal(&s, Mul, &n) };
        assert!(r.is_err(), "obligation: string * number is a type error in Jsonnet (multiplication is defined on numbers only)");
        kani::cover!(swap); kani::cover!(!swap);
    }

    /// value-level facts of the non-numeric arms that the type table does not pin down
    #[kani::proof]
    #[kani::stub(alloc::fmt::format, stub_format)]
    #[kani::unwind(2)]
    fn h_bool_and_eq_values() {
        let (x, y): (bool, bool) = (kani::any(), kani::any());
        let b = |r: Result<Val>| match r { Ok(Val::Bool(v)) => v, _ => panic!("obligation: boolean operator returns a boolean") };
        assert!(b(evaluate_binary_op_normal(&Val::Bool(x), And, &Val::Bool(y))) == (x && y), "obligation: && is conjunction");
        assert!(b(evaluate_binary_op_normal(&Val::Bool(x), Or, &Val::Bool(y))) == (x || y), "obligation: || is disjunction");
        assert!(b(evaluate_binary_op_normal(&Val::Bool(x), Eq, &Val::Bool(y))) == (x == y), "obligation: == on booleans");
        assert!(b(evaluate_binary_op_normal(&Val::Bool(x), Neq, &Val::Bool(y))) == (x != y), "obligation: != on booleans");
        assert!(b(evaluate_binary_op_normal(&Val::Null, Eq, &Val::Null)), "obligation: null == null");
        // values of different types are never equal (and comparing them is not an error)
        let (ta, tb) = (any_type(), any_type());
        if ta != tb {
            assert!(!b(evaluate_binary_op_normal(&val_of(ta), Eq, &val_of(tb))), "obligation: values of different types are unequal");
            assert!(b(evaluate_binary_op_normal(&val_of(ta), Neq, &val_of(tb))), "obligation: values of different types are unequal");
        }
        // strings: == and the order are those of the contents
        let s = |k: bool| Val::Str(StrValue(IStr(if k { "" } else { "a" })));
        assert!(b(evaluate_binary_op_normal(&s(x), Eq, &s(y))) == (x == y), "obligation: == on strings compares contents");
        assert!(b(evaluate_binary_op_normal(&s(x), Lt, &s(y))) == (x && !y), "obligation: < on strings is the lexicographic order");
        kani::cover!(ta != tb);
    }

    /// unary operators: ! on booleans, - + ~ on numbers, everything else is a type error
    #[kani::proof]
    #[kani::stub(alloc::fmt::format, stub_format)]
    fn h_unary_table() {
        let t = any_type();
        let k: u8 = kani::any(); kani::assume(k < 4);
        let op = match k { 0 => UnaryOpType::Plus, 1 => UnaryOpType::Minus, 2 => UnaryOpType::Not, _ => UnaryOpType::BitNot };
        let r = evaluate_unary_op(op, &val_of(t));
        let expect = match (op, t) { (UnaryOpType::Not, T::Bool) => Some(T::Bool), (UnaryOpType::Plus | UnaryOpType::Minus | UnaryOpType::BitNot, T::Num) => Some(T::Num), _ => None };
        match (&r, expect) {
            (Ok(v), Some(e)) => assert!(type_of(v) == e, "obligation: unary operator result type"),
            (Ok(_), None) => panic!("obligation: a unary operator applied to the wrong operand type is an error"),
            (Err(_), Some(_)) => assert!(op == UnaryOpType::BitNot || op == UnaryOpType::Minus, "obligation: ! and unary + are total on their operand type"),
            (Err(_), None) => {}
        }
        kani::cover!(r.is_ok()); kani::cover!(r.is_err());
    }

    /// && and || evaluate the left operand once, first; the right operand is evaluated at most once and NOT AT ALL when the
    /// left operand decides (true || _, false && _); every other operator evaluates both operands once, left first, and is
    /// the strict operator on the two values; a failing left operand fails the expression without touching the right one.
    fn check_special(op: BinaryOpType) {
        let (ta, tb) = (any_type(), any_type());
        let a_fails: bool = kani::any(); let b_fails: bool = kani::any();
        let (va, vb) = (val_of(ta), val_of(tb));
        unsafe {
            EVAL_N = 0; EVAL_LOG = [9; 4];
            SCRIPT[0] = Some(if a_fails { Err(Error(ErrorKind::Other("lhs"))) } else { Ok(va.clone()) });
            SCRIPT[1] = Some(if b_fails { Err(Error(ErrorKind::Other("rhs"))) } else { Ok(vb.clone()) });
        }
        let r = evaluate_binary_op_special(Context, &Expr(0), op, &Expr(1));
        let decided = !a_fails && match (&va, op) { (Val::Bool(true), Or) | (Val::Bool(false), And) => true, _ => false };
        unsafe {
            assert!(EVAL_N >= 1 && EVAL_LOG[0] == 0, "obligation: the left operand is evaluated first");
            if a_fails {
                assert!(EVAL_N == 1 && r.is_err(), "obligation: a failing left operand fails the expression and the right operand is not evaluated");
            } else if decided {
                assert!(EVAL_N == 1, "obligation: the right operand of a decided && / || is never evaluated");
                match &r { Ok(Val::Bool(v)) => assert!(*v == (op == Or), "obligation: true || _ is true, false && _ is false"), _ => panic!("obligation: a decided && / || is a boolean") }
            } else {
                assert!(EVAL_N == 2 && EVAL_LOG[1] == 1, "obligation: both operands are evaluated exactly once, left to right");
                if b_fails { assert!(r.is_err(), "obligation: a failing right operand that is needed fails the expression"); }
                else {
                    let strict = evaluate_binary_op_normal(&va, op, &vb);
                    assert!(r.is_ok() == strict.is_ok(), "obligation: a binary expression is the strict operator applied to the two operand values");
                    if let (Ok(x), Ok(y)) = (&r, &strict) { assert!(type_of(x) == type_of(y)); if let (Val::Bool(p), Val::Bool(q)) = (x, y) { assert!(p == q); } }
                }
            }
        }
        kani::cover!(decided);
        kani::cover!(!a_fails && !decided && !b_fails && r.is_ok());
    }
    #[kani::proof]
    #[kani::stub(alloc::fmt::format, stub_format)]
    fn h_short_circuit_and() { check_special(And); }
    #[kani::proof]
    #[kani::stub(alloc::fmt::format, stub_format)]
    fn h_short_circuit_or() { check_special(Or); }
}
