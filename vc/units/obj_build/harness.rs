// Kani unit obj_build (C02, C04): how layer lists are built: `a + b` (extend_from), object extension (with_super),
// removed-key layers (with_fields_omitted / prev_layers), commit / build.
#![allow(unused, dead_code)]
use std::cell::{Cell, RefCell};
use std::mem;
use std::rc::Rc;
//@include fixed_string.rs

// ---------------------------------------------------------------- stand-ins (trusted)
pub type Cc<T> = Rc<T>;
pub type IStr = u8;
#[derive(Debug, Clone, Copy, PartialEq, Eq)]
pub enum CoreKind { Fields(u8), Omit { prev_layers: usize }, Other(u8) }
#[derive(Debug, Clone, Copy, PartialEq, Eq)]
pub struct CcObjectCore(pub CoreKind);
pub trait IntoCore { fn into_core(self) -> CoreKind; }
impl CcObjectCore { pub fn new<T: IntoCore>(c: T) -> Self { CcObjectCore(c.into_core()) } }
/// the object literal being built: `id` stands for its field map, 0 = no fields and no assertion (is_empty)
#[derive(Debug, Clone, Copy, PartialEq, Eq, Default)]
pub struct OopObject { pub id: u8 }
impl OopObject { fn is_empty(&self) -> bool { self.id == 0 } }
impl IntoCore for OopObject { fn into_core(self) -> CoreKind { CoreKind::Fields(self.id) } }
pub struct FxHashSet<T>(pub T);
impl IntoCore for OmitFieldsCore { fn into_core(self) -> CoreKind { CoreKind::Omit { prev_layers: self.prev_layers } } }
#[derive(Debug, Clone, Copy, PartialEq, Eq, Default)]
pub struct FieldIndex(());
pub trait ObjectCore: IntoCore {}
impl<T: IntoCore> ObjectCore for T {}
pub struct FxHashMap;
impl FxHashMap { pub fn default() -> RefCell<FxHashMap> { RefCell::new(FxHashMap) } }
impl Default for FxHashMap { fn default() -> Self { FxHashMap } }
pub struct ObjValueInner { pub cores: Vec<CcObjectCore>, pub assertions_ran: Cell<bool>, pub has_assertions: bool, pub value_cache: RefCell<FxHashMap> }
#[derive(Clone)]
pub struct ObjValue(pub Cc<ObjValueInner>);
impl ObjValue { pub fn empty() -> Self { ObjValue(Cc::new(ObjValueInner { cores: Vec::new(), assertions_ran: Cell::new(true), has_assertions: false, value_cache: RefCell::default() })) } }
// Vec API used by the builder beyond the shared stand-in
impl<T: Clone> Vec<T> {
    pub fn clone_from(&mut self, o: &Vec<T>) { *self = o.clone(); }
    pub fn reserve_exact(&mut self, _n: usize) {}
    pub fn extend(&mut self, it: impl Iterator<Item = T>) { for x in it { self.push(x); } }
    pub fn iter(&self) -> RefIt<'_, T> { RefIt { v: self, i: 0 } }
}
pub struct RefIt<'a, T> { v: &'a Vec<T>, i: usize }
impl<'a, T> Iterator for RefIt<'a, T> { type Item = &'a T; fn next(&mut self) -> Option<&'a T> { if self.i < self.v.len { self.i += 1; self.v.buf[self.i - 1].as_ref() } else { None } } }

// ---------------------------------------------------------------- extracted real code
//@item crates/jrsonnet-evaluator/src/obj/mod.rs :: struct OmitFieldsCore
//@item crates/jrsonnet-evaluator/src/obj/oop.rs :: struct ObjValueBuilder ;; keep-pub
impl ObjValueBuilder {
//@item crates/jrsonnet-evaluator/src/obj/oop.rs :: impl ObjValueBuilder > fn with_super ;; keep-pub
//@item crates/jrsonnet-evaluator/src/obj/oop.rs :: impl ObjValueBuilder > fn reserve_cores ;; keep-pub
//@item crates/jrsonnet-evaluator/src/obj/oop.rs :: impl ObjValueBuilder > fn extend_with_core ;; keep-pub
//@item crates/jrsonnet-evaluator/src/obj/oop.rs :: impl ObjValueBuilder > fn commit
//@item crates/jrsonnet-evaluator/src/obj/oop.rs :: impl ObjValueBuilder > fn with_fields_omitted ;; keep-pub
//@item crates/jrsonnet-evaluator/src/obj/oop.rs :: impl ObjValueBuilder > fn build ;; keep-pub
}
impl ObjValue {
//@item crates/jrsonnet-evaluator/src/obj/mod.rs :: impl ObjValue #* > fn extend_from ;; keep-pub
}

#[cfg(kani)]
mod harness {
    use super::*;
    fn obj(ids: &[u8], asserts: bool) -> ObjValue { let mut v = Vec::new(); let mut i = 0; while i < ids.len() { v.push(CcObjectCore(CoreKind::Fields(ids[i]))); i += 1; } ObjValue(Cc::new(ObjValueInner { cores: v, assertions_ran: Cell::new(!asserts), has_assertions: asserts, value_cache: RefCell::default() })) }
    fn layer(o: &ObjValue, i: usize) -> CoreKind { o.0.cores.buf[i].unwrap().0 }

    /// `a + b`: the layers of a, then the layers of b (so b's definitions are to the right); assertions of either side are kept pending
    #[kani::proof]
    #[kani::unwind(10)]
    fn h_extend_from() {
        let na: usize = kani::any(); let nb: usize = kani::any(); kani::assume(na <= 2 && nb <= 2);
        let (aa, ab): (bool, bool) = (kani::any(), kani::any());
        let a = obj(&[1, 2][..na], aa); let b = obj(&[3, 4][..nb], ab);
        // either operand may already have been read on its own (its assertions ran against ITSELF, not against the composed object)
        let (ra, rb): (bool, bool) = (kani::any(), kani::any());
        if ra { a.0.assertions_ran.set(true); } if rb { b.0.assertions_ran.set(true); }
        let r = b.extend_from(a.clone());
        assert!(r.0.cores.len == na + nb, "obligation: a + b has the layers of both");
        let mut i = 0; while i < na { assert!(layer(&r, i) == layer(&a, i), "obligation: layers of the left operand come first, in order"); i += 1; }
        let mut j = 0; while j < nb { assert!(layer(&r, na + j) == layer(&b, j), "obligation: layers of the right operand follow, in order"); j += 1; }
        assert!(r.0.has_assertions == (aa || ab) && r.0.assertions_ran.get() == !(aa || ab), "obligation: assertions of both operands will run (again) on the composed object, whether or not an operand has been checked on its own before");
        kani::cover!(na == 2 && nb == 2); kani::cover!(aa && ra && rb);
    }

    /// object extension `base { ... }` and std.objectRemoveKey: new literal layer goes on top of the base's layers; a
    /// removed-key layer records exactly the number of layers beneath it
    #[kani::proof]
    #[kani::unwind(10)]
    fn h_builder() {
        let nb: usize = kani::any(); kani::assume(nb <= 2);
        let ba: bool = kani::any(); kani::assume(!ba || nb >= 1);   // assertions live in a layer
        let base = obj(&[1, 2][..nb], ba);
        let lit: u8 = kani::any(); kani::assume(lit == 0 || lit == 7);         // 0: the literal contributes no fields
        let mut bld = ObjValueBuilder { sup: Vec::new(), has_assertions: false, new: OopObject { id: lit }, next_field_index: FieldIndex::default() };
        bld.with_super(base.clone());
        let omit: bool = kani::any();
        if omit { bld.with_fields_omitted(FxHashSet(5)); }
        let r = bld.build();
        let lit_layers = if lit != 0 { 1 } else { 0 };
        let want = nb + lit_layers + omit as usize;
        assert!(r.0.cores.len == want, "obligation: base layers + (non-empty) literal layer + removed-key layer");
        let mut i = 0; while i < nb { assert!(layer(&r, i) == layer(&base, i), "obligation: the extension starts from the base's layers"); i += 1; }
        if lit != 0 { assert!(layer(&r, nb) == CoreKind::Fields(7), "obligation: the literal's fields sit above the base"); }
        if omit { assert!(layer(&r, want - 1) == CoreKind::Omit { prev_layers: nb + lit_layers }, "obligation: a removed-key layer masks exactly the layers beneath it"); }
        assert!(r.0.has_assertions == base.0.has_assertions, "obligation: inherited assertions stay pending");
        kani::cover!(omit && lit != 0 && nb == 2);
        kani::cover!(want == 0);
    }
}
