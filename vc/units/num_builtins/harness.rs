// Kani unit num_builtins (C09, C04): loop-free std math builtins composed with the finite-result conversion, and the
// typed argument conversions (range + integrality checks) that guard builtins -- full f64 domain.
#![allow(unused, dead_code, non_snake_case)]
use std::cmp::Ordering;
use std::ops::Deref;
use std::fmt::{self, Debug, Display};

// ---------------------------------------------------------------- stand-ins (trusted)
#[derive(Debug, Clone, Copy, PartialEq, Eq)]
pub enum ValType { Num, Other }
#[derive(Debug, Clone)]
pub enum ErrorKind { RuntimeError(&'static str), ConvertNum(ConvertNumValueError), Type }
#[derive(Debug, Clone)]
pub struct Error(pub ErrorKind);
impl Error { pub fn new(e: ErrorKind) -> Self { Error(e) } }
impl From<ErrorKind> for Error { fn from(e: ErrorKind) -> Self { Error(e) } }
impl From<std::convert::Infallible> for Error { fn from(_: std::convert::Infallible) -> Self { unreachable!() } }
impl From<ConvertNumValueError> for ErrorKind { fn from(e: ConvertNumValueError) -> Self { ErrorKind::ConvertNum(e) } }
pub type Result<T, E = Error> = std::result::Result<T, E>;
macro_rules! bail { ($l:literal$(, $($tt:tt)*)?) => { return Err(ErrorKind::RuntimeError($l).into()) }; }
#[derive(Debug, Clone, Copy)]
pub enum Val { Null, Num(NumValue) }
impl Val {
    pub fn try_num<V, E>(num: V) -> Result<Self, E> where NumValue: TryFrom<V, Error = E> { Ok(Self::Num(num.try_into()?)) }   // same text as val.rs
}
/// hand-written mirror of ComplexValType::check for the two shapes used here (typed/mod.rs: BoundedNumber, Simple(Num))
#[derive(Debug, Clone, Copy)]
pub enum ComplexValType { BoundedNumber(Option<f64>, Option<f64>), Simple(ValType) }
impl ComplexValType {
    pub fn check(&self, value: &Val) -> Result<()> {
        match (self, value) {
            (ComplexValType::BoundedNumber(from, to), Val::Num(n)) => { let n = n.get(); if from.map(|from| from > n).unwrap_or(false) || to.map(|to| to < n).unwrap_or(false) { return Err(Error(ErrorKind::Type)); } Ok(()) }
            (ComplexValType::Simple(ValType::Num), Val::Num(_)) => Ok(()),
            _ => Err(Error(ErrorKind::Type)),
        }
    }
}
pub trait Typed { const TYPE: &'static ComplexValType; }
pub trait FromUntyped: Typed + Sized { fn from_untyped(value: Val) -> Result<Self>; }
pub trait IntoUntyped: Typed + Sized { fn into_untyped(value: Self) -> Result<Val>; }

// ---------------------------------------------------------------- extracted real code
//@item crates/jrsonnet-evaluator/src/typed/conversions.rs :: const MAX_SAFE_INTEGER ;; keep-pub
//@item crates/jrsonnet-evaluator/src/typed/conversions.rs :: const MIN_SAFE_INTEGER ;; keep-pub
//@item crates/jrsonnet-evaluator/src/val.rs :: struct NumValue ;; std-derives keep-pub
//@item crates/jrsonnet-evaluator/src/val.rs :: impl NumValue ;; keep-pub
//@item crates/jrsonnet-evaluator/src/val.rs :: impl Debug for NumValue
//@item crates/jrsonnet-evaluator/src/val.rs :: enum ConvertNumValueError ;; std-derives keep-pub
//@item crates/jrsonnet-evaluator/src/val.rs :: impl From<ConvertNumValueError> for Error
//@item crates/jrsonnet-evaluator/src/val.rs :: macro_rules! impl_num
impl_num!(i8, u8, i16, u16, i32, u32);
//@item crates/jrsonnet-evaluator/src/val.rs :: macro_rules! impl_try_num
impl_try_num!(usize, isize, i64, u64);
//@item crates/jrsonnet-evaluator/src/val.rs :: impl TryFrom<f64> for NumValue
//@item crates/jrsonnet-evaluator/src/typed/conversions.rs :: macro_rules! impl_int
impl_int!(i8 u8 i16 u16 i32 u32);
//@item crates/jrsonnet-evaluator/src/typed/conversions.rs :: macro_rules! impl_bounded_int
impl_bounded_int!(
	BoundedI32 = i32
	BoundedUsize = usize
);
//@item crates/jrsonnet-evaluator/src/typed/conversions.rs :: impl Typed for f64
//@item crates/jrsonnet-evaluator/src/typed/conversions.rs :: impl IntoUntyped for f64
//@item crates/jrsonnet-evaluator/src/typed/conversions.rs :: impl FromUntyped for f64
//@item crates/jrsonnet-evaluator/src/typed/conversions.rs :: struct PositiveF64 ;; keep-pub
//@item crates/jrsonnet-evaluator/src/typed/conversions.rs :: impl Typed for PositiveF64
//@item crates/jrsonnet-evaluator/src/typed/conversions.rs :: impl FromUntyped for PositiveF64
//@item crates/jrsonnet-evaluator/src/typed/conversions.rs :: impl Typed for usize
//@item crates/jrsonnet-evaluator/src/typed/conversions.rs :: impl IntoUntyped for usize
//@item crates/jrsonnet-evaluator/src/typed/conversions.rs :: impl FromUntyped for usize
//@item crates/jrsonnet-stdlib/src/math.rs :: fn builtin_abs ;; keep-pub
//@item crates/jrsonnet-stdlib/src/math.rs :: fn builtin_sign ;; keep-pub
//@item crates/jrsonnet-stdlib/src/math.rs :: fn builtin_max ;; keep-pub
//@item crates/jrsonnet-stdlib/src/math.rs :: fn builtin_min ;; keep-pub
//@item crates/jrsonnet-stdlib/src/math.rs :: fn builtin_clamp ;; keep-pub
//@item crates/jrsonnet-stdlib/src/math.rs :: fn builtin_modulo ;; keep-pub
//@item crates/jrsonnet-stdlib/src/math.rs :: fn builtin_floor ;; keep-pub
//@item crates/jrsonnet-stdlib/src/math.rs :: fn builtin_ceil ;; keep-pub
//@item crates/jrsonnet-stdlib/src/math.rs :: fn builtin_round ;; keep-pub
//@item crates/jrsonnet-stdlib/src/math.rs :: fn builtin_is_integer ;; keep-pub
//@item crates/jrsonnet-stdlib/src/math.rs :: fn builtin_is_decimal ;; keep-pub

#[cfg(kani)]
mod harness {
    use super::*;
    fn finite() -> f64 { let x: f64 = kani::any(); kani::assume(x.is_finite()); x }
    fn num(x: f64) -> Val { match NumValue::new(x) { Some(n) => Val::Num(n), None => panic!("obligation: finite value rejected") } }
    /// what the #[builtin] glue does with an f64 result: IntoUntyped for f64
    fn out(r: f64) -> Option<f64> { match f64::into_untyped(r) { Ok(Val::Num(n)) => { assert!(n.get().is_finite(), "obligation: NaN and infinities are never observable in values"); Some(n.get()) } Ok(_) => panic!(), Err(_) => { assert!(!r.is_finite(), "obligation: a finite result is a value"); None } } }

    #[kani::proof]
    fn h_abs_sign_round() {
        let x = finite();
        assert!(out(builtin_abs(x)) == Some(x.abs()) && out(builtin_floor(x)) == Some(x.floor()) && out(builtin_ceil(x)) == Some(x.ceil()) && out(builtin_round(x)) == Some(x.round()), "obligation: abs / floor / ceil / round are the platform operations");
        let s = builtin_sign(x);
        assert!(out(s).is_some() && (s == 0.0) == (x == 0.0) && (s == 1.0) == (x > 0.0) && (s == -1.0) == (x < 0.0), "obligation: std.sign is -1, 0 or 1 with the sign of its argument");
        assert!(builtin_is_integer(x) == (x == x.trunc()) && builtin_is_decimal(x) == (x != x.trunc()), "obligation: isInteger / isDecimal");
        kani::cover!(x == 0.0 && x.is_sign_negative());
    }

    #[kani::proof]
    fn h_min_max_clamp() {
        let (a, b, c) = (finite(), finite(), finite());
        let (mx, mn) = (builtin_max(a, b), builtin_min(a, b));
        assert!(out(mx).is_some() && out(mn).is_some() && mx >= a && mx >= b && (mx == a || mx == b) && mn <= a && mn <= b && (mn == a || mn == b), "obligation: std.max / std.min");
        // std.clamp(x, lo, hi) = if x < lo then lo else if x > hi then hi else x   (never a crash, also for lo > hi)
        let r = builtin_clamp(a, b, c);
        let want = if a < b { b } else if a > c { c } else { a };
        assert!(out(r) == Some(want), "obligation: std.clamp follows its definition for every argument triple");
        kani::cover!(b > c);
    }

    #[kani::proof]
    fn h_modulo() {
        let (x, y) = (finite(), finite());
        let r = out(builtin_modulo(x, y));
        assert!(r.is_some() == (y != 0.0), "obligation: std.modulo by zero is an error, otherwise a value");
        kani::cover!(y == 0.0);
    }

    /// typed argument conversion: integer parameters accept exactly the integral numbers of their range
    #[kani::proof]
    fn h_from_untyped_ints() {
        let x = finite();
        let integral = x == x.trunc();
        match i32::from_untyped(num(x)) { Ok(v) => assert!(integral && x >= -2147483648.0 && x <= 2147483647.0 && v as f64 == x, "obligation: i32 parameter: integral and in range"), Err(_) => assert!(!(integral && x >= -2147483648.0 && x <= 2147483647.0), "obligation: every i32 value is accepted") }
        match u16::from_untyped(num(x)) { Ok(v) => assert!(integral && x >= 0.0 && x <= 65535.0 && v as f64 == x, "obligation: u16 parameter"), Err(_) => assert!(!(integral && x >= 0.0 && x <= 65535.0)) }
        match usize::from_untyped(num(x)) { Ok(v) => assert!(integral && x >= 0.0 && x <= MAX_SAFE_INTEGER && v as f64 == x, "obligation: usize parameter: integral, non-negative, safe integer"), Err(_) => assert!(!(integral && x >= 0.0 && x <= MAX_SAFE_INTEGER)) }
        match <BoundedUsize<1, 2147483647>>::from_untyped(num(x)) { Ok(v) => assert!(integral && x >= 1.0 && x <= 2147483647.0 && v.value() as f64 == x, "obligation: bounded parameter (slice step)"), Err(_) => assert!(!(integral && x >= 1.0 && x <= 2147483647.0)) }
        match <BoundedI32<0, { i32::MAX }>>::from_untyped(num(x)) { Ok(v) => assert!(integral && x >= 0.0 && x <= 2147483647.0 && v.value() as f64 == x, "obligation: bounded parameter (makeArray size)"), Err(_) => assert!(!(integral && x >= 0.0 && x <= 2147483647.0)) }
        match PositiveF64::from_untyped(num(x)) { Ok(v) => assert!(x >= 0.0 && v.0 == x, "obligation: sqrt argument is non-negative"), Err(_) => assert!(x < 0.0) }
        assert!(i32::from_untyped(Val::Null).is_err() && f64::from_untyped(Val::Null).is_err(), "obligation: wrong type is an error");
        kani::cover!(integral && x > 65535.0);
        kani::cover!(!integral);
    }
}
