// Kani unit deps_collect (C15): collect_deps of cmds/jrsonnet-deps -- the transitive closure over statically discovered imports.
// Contract: every import found in a file is resolved relative to THAT file and listed; a file imported as code (`import`) is itself
// scanned, exactly once (the first time it is imported AS CODE -- also when it was listed earlier through importstr), `importstr` / `importbin` targets are listed but not scanned; a failing load / parse / resolve
// aborts with an error.  The recursion is cut at the recursive call (recorded), the AST traversal at Visitor::visit_expr (unit ir_visit).
#![allow(unused, dead_code, static_mut_refs)]

// ---------------------------------------------------------------- stand-ins (trusted)
#[derive(Clone, Copy, PartialEq, Debug)]
pub struct SourcePath(pub u8);                       // file identity
impl std::fmt::Display for SourcePath { fn fmt(&self, f: &mut std::fmt::Formatter<'_>) -> std::fmt::Result { f.write_str(match self.0 { 0 => "0", 1 => "1", 2 => "2", 3 => "3", _ => "9" }) } }
#[derive(Clone, Copy)]
pub struct IStr(pub &'static str);
impl From<&str> for IStr { fn from(_s: &str) -> Self { IStr("<code>") } }
impl std::ops::Deref for IStr { type Target = str; fn deref(&self) -> &str { self.0 } }
pub struct Source;
impl Source { pub fn new(_p: SourcePath, _c: IStr) -> Source { Source } }
pub struct ParserSettings { pub source: Source }
/// a parsed file: the (path, is-code-import) pairs its AST contains, in traversal order
pub struct Expr { pub file: u8 }
pub struct Msg;
impl std::fmt::Display for Msg { fn fmt(&self, f: &mut std::fmt::Formatter<'_>) -> std::fmt::Result { f.write_str("e") } }
static mut SCRIPT: [[(&'static str, bool, u8); 2]; 4] = [[("", false, 9); 2]; 4];   // per file: import text, as code, resolves to (9 = none / unresolvable)
static mut NIMP: [usize; 4] = [0; 4];
static mut LOAD_FAILS: u8 = 9;
static mut PARSE_FAILS: u8 = 9;
static mut CUR: u8 = 0;
pub mod jrsonnet_ir_parser { use super::*; pub fn parse(_code: &IStr, _s: &ParserSettings) -> Result<Expr, Msg> { unsafe { if PARSE_FAILS == CUR { Err(Msg) } else { Ok(Expr { file: CUR }) } } } }
pub struct FileImportResolver;
impl FileImportResolver {
    pub fn load_file_contents(&self, p: &SourcePath) -> Result<&'static [u8], Msg> { unsafe { CUR = p.0; if LOAD_FAILS == p.0 { Err(Msg) } else { Ok(b"x") } } }
    pub fn resolve_from(&self, from: &SourcePath, path: &&str) -> Result<SourcePath, Msg> {
        unsafe { let mut i = 0; while i < NIMP[from.0 as usize] { let e = SCRIPT[from.0 as usize][i]; if e.0.as_ptr() == path.as_ptr() { return if e.2 == 9 { Err(Msg) } else { Ok(SourcePath(e.2)) }; } i += 1; } }
        panic!("obligation: an import is resolved relative to the file that contains it")
    }
}
pub trait Visitor: Sized {
    /// contract of the real traversal (unit ir_visit): every literal import of the tree is reported once
    fn visit_expr(&mut self, e: &Expr) { unsafe { let mut i = 0; while i < NIMP[e.file as usize] { let s = SCRIPT[e.file as usize][i]; self.visit_import(s.1, IStr(s.0)); i += 1; } } }
    fn visit_import(&mut self, _as_expression: bool, _value: IStr) {}
}
/// formatted text, reduced to its first byte (listed paths are one digit, messages one letter); `format!` still runs core::fmt over the real arguments
#[derive(Clone, Copy, PartialEq)]
pub struct String(pub u8);
impl std::fmt::Write for String { fn write_str(&mut self, s: &str) -> std::fmt::Result { if self.0 == 0 && !s.is_empty() { self.0 = s.as_bytes()[0]; } Ok(()) } }
pub fn format_standin(args: std::fmt::Arguments<'_>) -> String { let mut o = String(0); let _ = std::fmt::write(&mut o, args); o }
macro_rules! format { ($($a:tt)*) => { crate::format_standin(format_args!($($a)*)) } }
/// string set with BTreeSet's insert contract (true iff newly inserted)
pub struct BTreeSet<T> { items: [T; 4], n: usize }
impl BTreeSet<String> {
    pub fn new() -> Self { BTreeSet { items: [String(0); 4], n: 0 } }
    pub fn insert(&mut self, s: String) -> bool { let mut i = 0; while i < self.n { if self.items[i] == s { return false; } i += 1; } self.items[self.n] = s; self.n += 1; true }
    pub fn has(&self, c: u8) -> bool { let mut i = 0; while i < self.n { if self.items[i].0 == c { return true; } i += 1; } false }
    pub fn len(&self) -> usize { self.n }
}
static mut RECURSED: [u8; 4] = [9; 4];
static mut NREC: usize = 0;
fn collect_deps_callee(_r: &FileImportResolver, s: &SourcePath, _d: &mut BTreeSet<String>, _sc: &mut BTreeSet<String>) -> Result<(), String> { unsafe { RECURSED[NREC] = s.0; NREC += 1; } Ok(()) }

// ---------------------------------------------------------------- extracted real code
//@item cmds/jrsonnet-deps/src/main.rs :: struct FoundImports
//@item cmds/jrsonnet-deps/src/main.rs :: impl Visitor for FoundImports
//@item cmds/jrsonnet-deps/src/main.rs :: fn collect_deps ;; rename=collect_deps(resolver,->collect_deps_callee(resolver,

#[cfg(kani)]
mod harness {
    use super::*;
    #[kani::proof] #[kani::unwind(6)]
    fn h_code_and_str_imports() {
        // file 0:  import "a" (-> file 1),  importstr "b" (-> file 2)
        unsafe { SCRIPT[0] = [("a", true, 1), ("b", false, 2)]; NIMP[0] = 2; }
        let mut deps = BTreeSet::new(); let mut scanned = BTreeSet::new();
        let r = collect_deps(&FileImportResolver, &SourcePath(0), &mut deps, &mut scanned);
        assert!(r.is_ok(), "obligation: a loadable, parsable file with resolvable imports is not an error");
        assert!(deps.len() == 2 && deps.has(b'1') && deps.has(b'2'), "obligation: every import target is listed, whatever its kind");
        unsafe { assert!(NREC == 1 && RECURSED[0] == 1, "obligation: exactly the files imported as code are scanned in turn"); }
    }
    #[kani::proof] #[kani::unwind(6)]
    fn h_already_scanned() {
        // file 1 was already scanned as code (import cycle / diamond): not scanned again; the same code target twice in one file is scanned once
        unsafe { SCRIPT[0] = [("a", true, 1), ("c", true, 3)]; NIMP[0] = 2; }
        let mut deps = BTreeSet::new(); let mut scanned = BTreeSet::new();
        deps.insert(String(b'1')); scanned.insert(String(b'1'));
        let r = collect_deps(&FileImportResolver, &SourcePath(0), &mut deps, &mut scanned);
        assert!(r.is_ok() && deps.len() == 2 && deps.has(b'3'), "obligation: new targets are added to the listing");
        unsafe { assert!(NREC == 1 && RECURSED[0] == 3, "obligation: a file that was already scanned as code is not scanned again (termination on import cycles)"); }
    }
    #[kani::proof] #[kani::unwind(6)]
    fn h_str_then_code() {
        // file 2 is first met through importstr (listed, not scanned) and then imported as code: its own imports are reachable, so it must be scanned now
        let pre_listed: bool = kani::any();
        unsafe { SCRIPT[0] = [("b", false, 2), ("b2", true, 2)]; NIMP[0] = 2; }
        let mut deps = BTreeSet::new(); let mut scanned = BTreeSet::new();
        if pre_listed { deps.insert(String(b'2')); }      // ... or it was listed by an earlier file through importstr
        let r = collect_deps(&FileImportResolver, &SourcePath(0), &mut deps, &mut scanned);
        assert!(r.is_ok() && deps.len() == 1 && deps.has(b'2'), "obligation: the target is listed once");
        unsafe { assert!(NREC == 1 && RECURSED[0] == 2, "obligation: a file imported as code is scanned even if it was listed before through importstr / importbin (every statically reachable file is listed)"); }
        kani::cover!(pre_listed); kani::cover!(!pre_listed);
    }
    #[kani::proof] #[kani::unwind(6)]
    fn h_errors() {
        let which: u8 = kani::any(); kani::assume(which < 3);
        unsafe { SCRIPT[0] = [("a", true, if which == 2 { 9 } else { 1 }), ("", false, 9)]; NIMP[0] = 1; if which == 0 { LOAD_FAILS = 0; } if which == 1 { PARSE_FAILS = 0; } }
        let mut deps = BTreeSet::new(); let mut scanned = BTreeSet::new();
        let r = collect_deps(&FileImportResolver, &SourcePath(0), &mut deps, &mut scanned);
        assert!(r.is_err(), "obligation: an unreadable file, a syntax error or an unresolvable import is reported, not skipped");
        unsafe { assert!(NREC == 0, "obligation: nothing is scanned after the failure"); }
        std::mem::forget(r);
        kani::cover!(which == 2);
    }
}
