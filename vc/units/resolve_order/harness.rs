// Kani unit resolve_order (C07): where an import path is looked up -- FileImportResolver::resolve_from (importer's directory first, then
// the library search path in its stored order, error when nothing matches) and MiscOpts::import_resolver (search path = -J options
// right-most first, then the JSONNET_PATH entries).  The file system is a script: which candidate locations exist.
#![allow(unused, dead_code, static_mut_refs)]

// ---------------------------------------------------------------- stand-ins (trusted)
/// a path = (directory id, was `push`ed with the import path); directory ids: 1 = importer's dir, 2 = cwd, 10.. = library dirs
#[derive(Clone, Copy, PartialEq, Debug)]
pub struct PathBuf { pub dir: u8, pub file: bool, pub popped: bool }
pub type Path = PathBuf;
#[derive(Clone, Copy)] pub struct ResolvePath;
impl ResolvePath { pub fn to_owned(&self) -> ResolvePath { *self } }
pub trait AsPathLike { fn as_path(&self) -> ResolvePath; }
pub struct Import; impl AsPathLike for Import { fn as_path(&self) -> ResolvePath { ResolvePath } }
impl PathBuf {
    pub fn to_owned(&self) -> PathBuf { *self }
    pub fn pop(&mut self) -> bool { self.popped = true; true }
    pub fn push(&mut self, _p: ResolvePath) { self.file = true; }
    pub fn clone(&self) -> PathBuf { *self }
}
#[derive(Clone, Copy, PartialEq, Debug)] pub struct SourceFile(pub PathBuf);
impl SourceFile { pub fn path(&self) -> &PathBuf { &self.0 } }
#[derive(Clone, Copy, PartialEq, Debug)] pub struct SourceDirectory(pub PathBuf);
impl SourceDirectory { pub fn path(&self) -> &PathBuf { &self.0 } }
#[derive(Clone, Copy, PartialEq, Debug)] pub struct SourceDefaultIgnoreJpath;
#[derive(Clone, Copy, PartialEq, Debug)]
pub enum SourcePath { File(SourceFile), Dir(SourceDirectory), IgnoreJpath(SourceDefaultIgnoreJpath), Default, Found(u8) }
pub trait Kind: Sized { fn pick(s: &SourcePath) -> Option<&Self>; }
impl Kind for SourceFile { fn pick(s: &SourcePath) -> Option<&Self> { if let SourcePath::File(f) = s { Some(f) } else { None } } }
impl Kind for SourceDirectory { fn pick(s: &SourcePath) -> Option<&Self> { if let SourcePath::Dir(f) = s { Some(f) } else { None } } }
impl Kind for SourceDefaultIgnoreJpath { fn pick(s: &SourcePath) -> Option<&Self> { if let SourcePath::IgnoreJpath(f) = s { Some(f) } else { None } } }
impl SourcePath { pub fn downcast_ref<T: Kind>(&self) -> Option<&T> { T::pick(self) } pub fn is_default(&self) -> bool { matches!(self, SourcePath::Default) } }
#[derive(Debug)] pub enum ErrorKind { ImportFileNotFound(SourcePath, ResolvePath), ImportIo(&'static str) }
impl std::fmt::Debug for ResolvePath { fn fmt(&self, f: &mut std::fmt::Formatter<'_>) -> std::fmt::Result { Ok(()) } }
pub use ErrorKind::*;
#[derive(Debug)] pub struct Error(pub ErrorKind);
impl From<ErrorKind> for Error { fn from(e: ErrorKind) -> Self { Error(e) } }
pub type Result<T> = core::result::Result<T, Error>;
macro_rules! bail { ($w:ident$(($($tt:tt)*))?) => { return Err($w$(($($tt)*))?.into()) }; }
pub struct IoError; impl IoError { pub fn to_string(&self) -> &'static str { "io" } }
fn current_dir() -> core::result::Result<PathBuf, IoError> { Ok(PathBuf { dir: 2, file: false, popped: false }) }
static mut EXISTS: [bool; 16] = [false; 16];
static mut PROBED: [u8; 8] = [0; 8];
static mut NPROBED: usize = 0;
/// contract of check_path: Some(canonical file) iff a file exists at that location (other outcomes of the real function: unit not built)
fn check_path(p: &Path) -> Result<Option<SourcePath>> { unsafe { assert!(p.file, "obligation: the import path is appended to the directory before the lookup"); PROBED[NPROBED] = p.dir; NPROBED += 1; Ok(if EXISTS[p.dir as usize] { Some(SourcePath::Found(p.dir)) } else { None }) } }
pub trait ImportResolver { fn resolve_from(&self, from: &SourcePath, path: &dyn AsPathLike) -> Result<SourcePath>; }
pub struct StackDepthLimitOverrideGuard;
/// the environment of the process
static mut JSONNET_PATH: Option<[u8; 2]> = None;
pub struct OsString(pub [u8; 2]); impl OsString { pub fn as_os_str(&self) -> [u8; 2] { self.0 } }
pub mod env {
    use super::*;
    pub fn var_os(name: &str) -> Option<OsString> { assert!(name.len() == 12 && name.as_bytes()[0] == b'J', "obligation: the variable consulted is JSONNET_PATH"); unsafe { JSONNET_PATH.map(OsString) } }
    pub fn split_paths(v: [u8; 2]) -> impl Iterator<Item = PathBuf> { v.into_iter().map(|d| PathBuf { dir: d, file: false, popped: false }) }
}

// ---------------------------------------------------------------- extracted real code
//@item crates/jrsonnet-evaluator/src/import.rs :: struct FileImportResolver ;; keep-pub
//@item crates/jrsonnet-evaluator/src/import.rs :: impl FileImportResolver ;; keep-pub
impl ImportResolver for FileImportResolver {
//@item crates/jrsonnet-evaluator/src/import.rs :: impl ImportResolver for FileImportResolver > fn resolve_from
}
//@item crates/jrsonnet-cli/src/lib.rs :: struct MiscOpts ;; keep-pub
impl MiscOpts {
//@item crates/jrsonnet-cli/src/lib.rs :: impl MiscOpts > fn import_resolver ;; keep-pub
}

#[cfg(kani)]
mod harness {
    use super::*;
    fn lib(d: u8) -> PathBuf { PathBuf { dir: d, file: false, popped: false } }
    #[kani::proof] #[kani::unwind(6)]
    fn h_resolve_from_file() {
        // importer is a file in directory 1; library path [10, 11]
        let e: [bool; 3] = [kani::any(), kani::any(), kani::any()];
        unsafe { EXISTS[1] = e[0]; EXISTS[10] = e[1]; EXISTS[11] = e[2]; }
        let r = FileImportResolver::new(vec![lib(10), lib(11)]);
        let from = SourcePath::File(SourceFile(PathBuf { dir: 1, file: true, popped: false }));
        let got = r.resolve_from(&from, &Import);
        let want = if e[0] { Some(1) } else if e[1] { Some(10) } else if e[2] { Some(11) } else { None };
        match (&got, want) {
            (Ok(SourcePath::Found(d)), Some(w)) => assert!(*d == w, "obligation: the path is looked up relative to the importing file first, then in the library directories in priority order; the first existing file wins"),
            (Err(Error(ImportFileNotFound(..))), None) => {},
            _ => panic!("obligation: resolution succeeds iff some candidate exists, and fails with 'file not found' otherwise"),
        }
        unsafe { assert!(NPROBED >= 1 && PROBED[0] == 1, "obligation: the importer's own directory is tried first"); }
        std::mem::forget((r, got));
        kani::cover!(want == Some(11)); kani::cover!(want.is_none());
    }
    #[kani::proof] #[kani::unwind(6)]
    fn h_resolve_from_other_origins() {
        let e: [bool; 2] = [kani::any(), kani::any()];
        unsafe { EXISTS[2] = e[0]; EXISTS[10] = e[1]; }
        let r = FileImportResolver::new(vec![lib(10)]);
        // top-level input given on the command line: current directory only, the library path is NOT consulted
        let got = r.resolve_from(&SourcePath::IgnoreJpath(SourceDefaultIgnoreJpath), &Import);
        assert!(match &got { Ok(SourcePath::Found(2)) => e[0], Err(Error(ImportFileNotFound(..))) => !e[0], _ => false }, "obligation: the input file itself is resolved against the current directory only");
        // default origin (ext-code / tla-code imports): current directory, then the library path
        unsafe { NPROBED = 0; }
        let got2 = r.resolve_from(&SourcePath::Default, &Import);
        assert!(match &got2 { Ok(SourcePath::Found(d)) => if e[0] { *d == 2 } else { e[1] && *d == 10 }, Err(Error(ImportFileNotFound(..))) => !e[0] && !e[1], _ => false }, "obligation: without an importing file, the current directory comes first, then the library directories");
        // importer is a directory origin
        unsafe { EXISTS[3] = true; NPROBED = 0; }
        let got3 = r.resolve_from(&SourcePath::Dir(SourceDirectory(PathBuf { dir: 3, file: false, popped: false })), &Import);
        assert!(matches!(&got3, Ok(SourcePath::Found(3))), "obligation: a directory origin is searched itself");
        std::mem::forget((r, got, got2, got3));
        kani::cover!(!e[0] && e[1]);
    }
    #[kani::proof] #[kani::unwind(6)]
    fn h_search_path_assembly() {
        let with_env: bool = kani::any();
        unsafe { JSONNET_PATH = if with_env { Some([20, 21]) } else { None }; }
        let o = MiscOpts { max_stack: 512, jpath: vec![lib(10), lib(11), lib(12)] };       // -J 10 -J 11 -J 12
        let r = o.import_resolver();
        let lp = &r.library_paths;
        assert!(lp.len() == if with_env { 5 } else { 3 } && lp[0].dir == 12 && lp[1].dir == 11 && lp[2].dir == 10, "obligation: the right-most -J directory has the highest priority");
        if with_env { assert!(lp[3].dir == 20 && lp[4].dir == 21, "obligation: JSONNET_PATH entries follow the -J directories, in their own order"); }
        std::mem::forget((o, r));
        kani::cover!(with_env); kani::cover!(!with_env);
    }
}
