#!/usr/bin/env python3
"""Generates harness.rs / unit.json of unit trace_impls from the table below (run by hand when the table changes; the output is committed).
One row per cyclic-capable container type of the evaluator: the fields (or variants) that OWN garbage-collected data, given as a constructor
expression in which each owning field holds a recorder `Rec(k)` / `RecG(k, PhantomData)`; `want` is the set of recorder ids trace() must reach."""
import json, os
HERE = os.path.dirname(os.path.abspath(__file__))
P = "PhantomData"
ROWS = [
 # (module, selector name, ordinal, generics for the check, [(ctor, want)], source note)
 ("slice_array", "SliceArray", "", "", [("SliceArray { inner: Rec(0), from: 0, to: 0, step: 1 }", 0b1)]),
 ("array_thunk", "ArrayThunk", "", "", [("ArrayThunk::Computed(Rec(0))", 0b1), ("ArrayThunk::Errored(Rec(1))", 0b10)]),
 ("expr_array", "ExprArray", "", "", [("ExprArray { ctx: Rec(0), src: Rc(PhantomData), cached: Cc(RefCell(Vec(Rec(1)))) }", 0b11)]),
 ("expr_arr_thunk", "ExprArrThunk", "", "", [("ExprArrThunk { expr: Rec(0), index: 0 }", 0b1)]),
 ("extended_array", "ExtendedArray", "", "", [("ExtendedArray { a: Rec(0), b: Rec(1), split: 0, len: 0 }", 0b11)]),
 ("lazy_array", "LazyArray", "", "", [("LazyArray(Vec(RecG(0, PhantomData)))", 0b1)]),
 ("eager_array", "EagerArray", "", "", [("EagerArray(Vec(Rec(0)))", 0b1)]),
 ("reverse_array", "ReverseArray", "", "", [("ReverseArray(Rec(0))", 0b1)]),
 ("array_mapper", "ArrayMapper", "", "", [("ArrayMapper::Plain(RecG(0, PhantomData))", 0b1), ("ArrayMapper::WithIndex(RecG(1, PhantomData))", 0b10)]),
 ("mapped_array", "MappedArray", "", "", [("MappedArray { inner: Rec(0), cached: Cc(RefCell(Vec(Rec(1)))), mapper: Rec(2) }", 0b111)]),
 ("mapped_array_thunk", "MappedArrayThunk", "", "", [("MappedArrayThunk { arr: Rec(0), index: 0 }", 0b1)]),
 ("repeated_array", "RepeatedArray", "", "", [("RepeatedArray { data: Rec(0), repeats: 0, total_len: 0 }", 0b1)]),
 ("pick_object_values", "PickObjectValues", "", "", [("PickObjectValues { obj: Rec(0), keys: Vec(Leaf) }", 0b1)]),
 ("pick_object_key_values", "PickObjectKeyValues", "", "", [("PickObjectKeyValues { obj: Rec(0), keys: Vec(Leaf) }", 0b1)]),
 ("context", "Context", "", "", [("Context(Cc(Rec(0)))", 0b1)]),
 ("context_internal", "ContextInternal", "", "", [("ContextInternal { dollar: Some(Rec(0)), sup_this: Some(Rec(1)), bindings: Rec(2) }", 0b111)]),
 ("pending", "Pending", "", "::<Rec>", [("Pending::<Rec>(Cc(OnceCell(Rec(0))))", 0b1)]),
 ("layered_hash_map_internals", "LayeredHashMapInternals", "", "", [("LayeredHashMapInternals { parent: Some(Rec(0)), current: FxHashMap(Leaf, RecG(1, PhantomData)) }", 0b11)]),
 ("layered_hash_map", "LayeredHashMap", "", "", [("LayeredHashMap(Cc(Rec(0)))", 0b1)]),
 ("oop_object", "OopObject", "", "", [("OopObject { assertion: Some(Rec(0)), this_entries: FxHashMap(Leaf, Rec(1)) }", 0b11)]),
 ("obj_member", "ObjMember", "", "", [("ObjMember { flags: Leaf, original_index: Leaf, invoke: Rec(0), location: None }", 0b1)]),
 ("cache_value", "CacheValue", "", "", [("CacheValue::Cached(Ok(Some(Rec(0))))", 0b1), ("CacheValue::Cached(Err(Rec(1)))", 0b10)]),
 ("get_for", "GetFor", "", "", [("GetFor::Final(Rec(0))", 0b1), ("GetFor::SuperPlus(Rec(1))", 0b10)]),
 ("obj_value_inner", "ObjValueInner", "", "", [("ObjValueInner { cores: Vec(Rec(0)), assertions_ran: Cell(false), has_assertions: false, value_cache: RefCell(FxHashMap((Leaf, Leaf), Rec(1))) }", 0b11)]),
 ("obj_value", "ObjValue", "", "", [("ObjValue(Cc(Rec(0)))", 0b1)]),
 ("standalone_super_core", "StandaloneSuperCore", "", "", [("StandaloneSuperCore { sup: Leaf, this: Rec(0) }", 0b1)]),
 ("sup_this", "SupThis", "", "", [("SupThis { sup: Leaf, this: Rec(0) }", 0b1)]),
 ("obj_field_thunk_1", "ObjFieldThunk", "#1", "", [("ObjFieldThunk { obj: Rec(0), key: Leaf }", 0b1)]),
 ("obj_field_thunk_2", "ObjFieldThunk", "#2", "", [("ObjFieldThunk { obj: Rec(0), key: Leaf }", 0b1)]),
 ("memo_thunk_inner", "MemoizedClusureThunkInner", "", "::<Rec, Rec>", [("MemoizedClusureThunkInner::<Rec, Rec>::Computed(Rec(0))", 0b1), ("MemoizedClusureThunkInner::<Rec, Rec>::Errored(Rec(1))", 0b10), ("MemoizedClusureThunkInner::<Rec, Rec>::Waiting { env: Rec(2), closure: never }", 0b100)]),
 ("memo_thunk", "MemoizedClosureThunk", "", "::<Rec, Rec>", [("MemoizedClosureThunk::<Rec, Rec>(RefCell(RecG(0, PhantomData)))", 0b1)]),
 ("evaluated_thunk", "EvaluatedThunk", "", "::<Rec>", [("EvaluatedThunk(Rec(0))", 0b1)]),
 ("errored_thunk", "ErroredThunk", "", "::<Rec>", [("ErroredThunk::<Rec>(Rec(0), PhantomData)", 0b1)]),
 ("cached_unbound", "CachedUnbound", "", "::<Rec, Rec>", [("CachedUnbound::<Rec, Rec> { cache: Cc(RefCell(FxHashMap(Leaf, Rec(0)))), value: Rec(1) }", 0b11)]),
 ("val", "Val", "", "", [("Val::Arr(Rec(0))", 0b1), ("Val::Obj(Rec(1))", 0b10), ("Val::Func(Rec(2))", 0b100)]),
 ("maybe_unbound", "MaybeUnbound", "", "", [("MaybeUnbound::Unbound(RecG(0, PhantomData))", 0b1), ("MaybeUnbound::Bound(RecG(1, PhantomData))", 0b10)]),
 ("func_desc", "FuncDesc", "", "", [("FuncDesc { name: Leaf, ctx: Rec(0), params: Leaf, body: Rc(PhantomData) }", 0b1)]),
 ("func_val", "FuncVal", "", "", [("FuncVal::Normal(Cc(Rec(0)))", 0b1), ("FuncVal::Thunk(RecG(1, PhantomData))", 0b10), ("FuncVal::Builtin(Rec(2))", 0b100)]),
 ("native_fn", "NativeFn", "", "::<()>", [("NativeFn::<()>(Rec(0), PhantomData)", 0b1)]),
 ("prepared_func_val", "PreparedFuncVal", "", "", [("PreparedFuncVal { fun: Rec(0), prepared: Rc(PhantomData) }", 0b1)]),
 ("unbound_locals", "UnboundLocals", "", "", [("UnboundLocals { fctx: Rec(0), locals: Rc(PhantomData) }", 0b1)]),
 ("unbound_value", "UnboundValue", "", "::<Rec>", [("UnboundValue::<Rec> { uctx: Rec(0), value: Rc(PhantomData), name: Leaf }", 0b1)]),
 ("unbound_method", "UnboundMethod", "", "::<Rec>", [("UnboundMethod::<Rec> { uctx: Rec(0), value: Rc(PhantomData), params: Leaf, name: Leaf }", 0b1)]),
 ("object_assert", "ObjectAssert", "", "::<Rec>", [("ObjectAssert::<Rec> { uctx: Rec(0), asserts: Rc(PhantomData) }", 0b1)]),
 ("direct_unbound", "DirectUnbound", "", "", [("DirectUnbound(Rec(0))", 0b1)]),
 ("file_data", "FileData", "", "", [("FileData { string: None, bytes: None, parsed: None, evaluated: Some(Rec(0)), evaluating: false }", 0b1)]),
 ("state_internals", "EvaluationStateInternals", "", "", [("EvaluationStateInternals { file_cache: RefCell(FxHashMap(Leaf, Rec(0))), context_initializer: Rec(1), import_resolver: Rc(PhantomData) }", 0b11)]),
 ("state", "State", "", "", [("State(Cc(Rec(0)))", 0b1)]),
 ("tla_arg", "TlaArg", "", "", [("TlaArg::Val(Rec(0))", 0b1), ("TlaArg::Lazy(RecG(1, PhantomData))", 0b10)]),
]
PRELUDE = r'''// Kani unit trace_impls (C18): the `Trace` implementation of every cyclic-capable container type of the evaluator, taken from the
// crate's source AFTER macro expansion (so a derive, a hand-written impl and cc_dyn! output are all covered), must reach every field
// that owns garbage-collected data, and must report the type as tracked -- otherwise the cycle collector can never reclaim a cycle through it.
// GENERATED by mk.py from its table; do not edit by hand.
#![allow(unused, dead_code, non_snake_case, unreachable_patterns)]

// ---------------------------------------------------------------- stand-ins (trusted)
pub mod jrsonnet_gcmodule {
    pub struct Tracer { pub mask: u64 }
    pub trait Trace { fn trace(&self, _tracer: &mut Tracer) {} fn is_type_tracked() -> bool where Self: Sized { true } }
    /// owning GC pointer, transparent for tracing
    pub struct Cc<T>(pub T);
    impl<T: Trace> Trace for Cc<T> { fn trace(&self, t: &mut Tracer) { self.0.trace(t) } fn is_type_tracked() -> bool { true } }
}
pub mod prelude {
    pub use crate::jrsonnet_gcmodule::{Cc, Trace, Tracer};
    pub use core::marker::PhantomData;
    /// recorder: stands for a value that owns garbage-collected data; trace() must reach it
    pub struct Rec(pub u8);
    impl Trace for Rec { fn trace(&self, t: &mut Tracer) { t.mask |= 1u64 << self.0 } }
    pub struct RecG<V>(pub u8, pub PhantomData<V>);
    impl<V> Trace for RecG<V> { fn trace(&self, t: &mut Tracer) { t.mask |= 1u64 << self.0 } }
    /// data that cannot own garbage-collected values (interned strings, AST, indices, weak references)
    pub struct Leaf;
    impl Trace for Leaf { fn is_type_tracked() -> bool { false } }
    pub type Val = Rec; pub type ArrValue = Rec; pub type ObjValue = Rec; pub type Context = Rec; pub type Error = Rec; pub type FuncVal = Rec;
    pub type MaybeUnbound = Rec; pub type SupThis = Rec; pub type LayeredHashMap = Rec; pub type ObjMember = Rec; pub type CacheValue = Rec;
    pub type ArrayThunk = Rec; pub type ExprArray = Rec; pub type MappedArray = Rec; pub type ArrayMapper = Rec; pub type PreparedFuncVal = Rec;
    pub type BuiltinFunc = Rec; pub type CcObjectCore = Rec; pub type CcObjectAssertion = Rec; pub type CcContextInitializer = Rec; pub type FuncDesc = Rec;
    pub type ContextInternal = Rec; pub type LayeredHashMapInternals = Rec; pub type ObjValueInner = Rec; pub type FileData = Rec; pub type EvaluationStateInternals = Rec;
    pub type Thunk<V> = RecG<V>; pub type CcUnbound<V> = RecG<V>; pub type NativeFn<D> = RecG<D>; pub type MemoizedClusureThunkInner<D, T> = RecG<(D, T)>;
    pub type IStr = Leaf; pub type IBytes = Leaf; pub type Span = Leaf; pub type Expr = Leaf; pub type BindSpec = Leaf; pub type AssertStmt = Leaf; pub type ExprParams = Leaf;
    pub type ObjFieldFlags = Leaf; pub type FieldIndex = Leaf; pub type CoreIdx = Leaf; pub type Skip = Leaf; pub type NumValue = Leaf; pub type StrValue = Leaf;
    pub type PreparedCall = Leaf; pub type SourcePath = Leaf; pub type WeakObjValue = Leaf; pub type WeakSupThis = Leaf; pub type FunctionSignature = Leaf;
    pub type Result<T> = core::result::Result<T, Rec>;
    pub trait StaticBuiltin {} pub trait ImportResolver {}
    pub trait Unbound: Trace { type Bound; } impl Unbound for Rec { type Bound = Rec; }
    pub fn never(_: Rec) -> Result<Rec> { Err(Rec(63)) }
    // containers: single-slot, transparent for tracing (the real impls of jrsonnet-gcmodule visit every element)
    pub struct Vec<T>(pub T); pub struct RefCell<T>(pub T); pub struct Cell<T>(pub T); pub struct OnceCell<T>(pub T); pub struct Box<T>(pub T);
    pub struct FxHashMap<K, V>(pub K, pub V); pub struct FxHashSet<K>(pub K);
    pub struct Rc<T: ?Sized>(pub PhantomData<T>); pub struct Weak<T: ?Sized>(pub PhantomData<T>);
    impl<T: Trace> Trace for Vec<T> { fn trace(&self, t: &mut Tracer) { self.0.trace(t) } fn is_type_tracked() -> bool { T::is_type_tracked() } }
    impl<T: Trace> Trace for RefCell<T> { fn trace(&self, t: &mut Tracer) { self.0.trace(t) } fn is_type_tracked() -> bool { T::is_type_tracked() } }
    impl<T: Trace> Trace for OnceCell<T> { fn trace(&self, t: &mut Tracer) { self.0.trace(t) } fn is_type_tracked() -> bool { T::is_type_tracked() } }
    impl<T: Trace> Trace for Box<T> { fn trace(&self, t: &mut Tracer) { self.0.trace(t) } fn is_type_tracked() -> bool { T::is_type_tracked() } }
    impl<T> Trace for Cell<T> { fn is_type_tracked() -> bool { false } }
    impl<K: Trace, V: Trace> Trace for FxHashMap<K, V> { fn trace(&self, t: &mut Tracer) { self.0.trace(t); self.1.trace(t) } fn is_type_tracked() -> bool { K::is_type_tracked() || V::is_type_tracked() } }
    impl<K: Trace> Trace for FxHashSet<K> { fn trace(&self, t: &mut Tracer) { self.0.trace(t) } fn is_type_tracked() -> bool { K::is_type_tracked() } }
    impl<T: ?Sized> Trace for Rc<T> { fn is_type_tracked() -> bool { false } }
    impl<T: ?Sized> Trace for Weak<T> { fn is_type_tracked() -> bool { false } }
    impl<T> Trace for PhantomData<T> { fn is_type_tracked() -> bool { false } }
    impl<T: Trace> Trace for Option<T> { fn trace(&self, t: &mut Tracer) { if let Some(v) = self { v.trace(t) } } fn is_type_tracked() -> bool { T::is_type_tracked() } }
    impl<T: Trace, E: Trace> Trace for core::result::Result<T, E> { fn trace(&self, t: &mut Tracer) { match self { Ok(v) => v.trace(t), Err(e) => e.trace(t) } } fn is_type_tracked() -> bool { T::is_type_tracked() || E::is_type_tracked() } }
    impl<A: Trace, B: Trace> Trace for (A, B) { fn trace(&self, t: &mut Tracer) { self.0.trace(t); self.1.trace(t) } fn is_type_tracked() -> bool { A::is_type_tracked() || B::is_type_tracked() } }
    impl Trace for bool { fn is_type_tracked() -> bool { false } } impl Trace for usize { fn is_type_tracked() -> bool { false } } impl Trace for u32 { fn is_type_tracked() -> bool { false } }
    impl Trace for i32 { fn is_type_tracked() -> bool { false } } impl Trace for char { fn is_type_tracked() -> bool { false } } impl Trace for String { fn is_type_tracked() -> bool { false } }
    impl Trace for () { fn is_type_tracked() -> bool { false } }
    pub fn reached<T: Trace>(v: &T) -> u64 { let mut t = Tracer { mask: 0 }; v.trace(&mut t); t.mask }
}

// ---------------------------------------------------------------- extracted real code: type definition + Trace impl, after macro expansion
'''
out = [PRELUDE]
harn = []
for (mod, name, ordn, gen, cases) in ROWS:
    o = (" " + ordn) if ordn else ""
    kind = "enum" if "::" in cases[0][0].split("(")[0].split("{")[0].replace("::<", "<") and name + "::" in cases[0][0].replace(gen, "") else "struct"
    out.append(f"pub mod t_{mod} {{\n    use super::prelude::*;\n//@item expanded:jrsonnet-evaluator :: ** {kind} {name}{o} ;; keep-pub\n"
               f"//@item expanded:jrsonnet-evaluator :: ** impl ~Trace for {name}{o} ;; rename=::jrsonnet_gcmodule->crate::jrsonnet_gcmodule\n"
               f"    pub fn check() {{\n")
    for (ctor, want) in cases:
        out.append(f"        assert!(reached(&{ctor}) & {want:#b} == {want:#b}, \"obligation: {name}::trace reaches every field that owns garbage-collected data\");\n")
    out.append(f"        assert!(<{name}{gen} as Trace>::is_type_tracked(), \"obligation: {name} is reported as tracked to the cycle collector\");\n    }}\n}}\n")
    harn.append((f"h_{mod}", name))
out.append("\n#[cfg(kani)]\nmod harness {\n    use super::*;\n")
for h, name in harn:
    out.append(f"    #[kani::proof] fn {h}() {{ t_{h[2:]}::check(); }}\n")
out.append("}\n")
open(os.path.join(HERE, "harness.rs"), "w").write("".join(out))
unit = {
 "backend": "kani", "tier": "quick", "serves": {"C18": "all"},
 "desc": "Trace implementations (derive output, hand-written impls) of the %d cyclic-capable container types of jrsonnet-evaluator, extracted from the macro-expanded crate: trace() reaches every field that owns GC data, every variant; is_type_tracked() is true" % len(ROWS),
 "trusted": [
  "extraction source is `cargo rustc -p jrsonnet-evaluator --lib -- -Zunpretty=expanded` (RUSTC_BOOTSTRAP=1, the repository's own compiler) run on the current working tree on every run; the type definition and its `impl Trace` are spliced verbatim from that text (rename ::jrsonnet_gcmodule -> crate::jrsonnet_gcmodule)",
  "stand-in: field types are recorders (`Rec`: owns GC data, must be reached) or leaves (interned strings, AST, indices, weak references: may be skipped); the classification of field types is the written contract of this unit",
  "stand-in: jrsonnet-gcmodule's Tracer / Cc and its container impls (Vec, RefCell, Option, Result, FxHashMap, tuples) are single-slot transparent wrappers -- assumed contract on the dependency: a container's trace visits every element",
  "cc_dyn!-generated wrappers (ArrValue, Thunk, CcUnbound, CcObjectCore, BuiltinFunc) and ErrorKind are not under contract",
  "complete per type: trace() of these types has no data-dependent control flow beyond the variant, and every owning variant is constructed"
 ],
 "kani": {"flags": [], "harnesses": [
   {"name": h, "level": "P", "fn": f"<{name} as Trace>::trace / is_type_tracked", "claim": "reaches every owning field; type is tracked", "covers": 0, "timeout": 300} for h, name in harn]}
}
json.dump(unit, open(os.path.join(HERE, "unit.json"), "w"), indent=1)
print(len(ROWS), "types")
