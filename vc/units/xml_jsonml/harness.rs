// Kani unit xml_jsonml (C14, C04): the JSONML -> XML writer manifest_jsonml (tags, attributes, closing rules) with
// the real entity escaper; the recursive call on children is cut at its own contract.
#![allow(unused, dead_code)]
//@include fixed_string_only.rs

// ---------------------------------------------------------------- stand-ins (trusted)
#[derive(Debug, Clone, Copy, PartialEq, Eq)]
pub struct Error;
pub type Result<T> = std::result::Result<T, Error>;
/// attribute values: a string, or a non-string whose std.toString text may contain markup characters
#[derive(Debug, Clone, Copy, PartialEq, Eq)]
pub enum Val { Str(StrValue), Num(u8), Arr(u8) }
#[derive(Debug, Clone, Copy, PartialEq, Eq)]
pub struct StrValue(pub &'static str);
impl StrValue { pub fn to_string(&self) -> String { let mut s = String::new(); s.push_str(self.0); s } }
pub struct ToStringFormat;
// both methods of the real ManifestFormat trait (manifest_buf + the provided manifest)
impl ToStringFormat {
    pub fn manifest_buf(&self, v: Val, s: &mut String) -> Result<()> { match v { Val::Num(_) => s.push_str("7"), Val::Arr(_) => s.push_str("[\"x<&\"]"), Val::Str(x) => s.push_str(x.0) } Ok(()) }
    pub fn manifest(&self, v: Val) -> Result<String> { let mut s = String::new(); self.manifest_buf(v, &mut s)?; Ok(s) }
}
#[derive(Debug, Clone, Copy, PartialEq, Eq)]
pub struct ObjValue { pub n: usize, pub vals: [Val; 2] }
pub struct OIter { o: ObjValue, i: usize }
const KEYS: [&str; 2] = ["a", "b"];
impl Iterator for OIter { type Item = (&'static str, Result<Val>); fn next(&mut self) -> Option<Self::Item> { if self.i < self.o.n { self.i += 1; Some((KEYS[self.i - 1], Ok(self.o.vals[self.i - 1]))) } else { None } } }
impl ObjValue { pub fn iter(&self) -> OIter { OIter { o: *self, i: 0 } } pub fn run_assertions(&self) -> Result<()> { Ok(()) } }
/// contract of the recursive call on a child: appends the child's XML text (here the token "{c}")
fn manifest_child(_c: &JSONMLValue, buf: &mut String, _o: &XmlJsonmlFormat) -> Result<()> { buf.push_str("{c}"); Ok(()) }

// ---------------------------------------------------------------- extracted real code
//@item crates/jrsonnet-stdlib/src/manifest/xml.rs :: struct XmlJsonmlFormat ;; keep-pub
//@item crates/jrsonnet-stdlib/src/manifest/xml.rs :: impl XmlJsonmlFormat ;; keep-pub
//@item crates/jrsonnet-stdlib/src/manifest/xml.rs :: enum JSONMLValue
// recursive call site cut at the callee contract: `manifest_jsonml(child` -> `manifest_child(child`
//@item crates/jrsonnet-stdlib/src/manifest/xml.rs :: fn manifest_jsonml ;; rename=manifest_jsonml(child->manifest_child(child
//@item crates/jrsonnet-stdlib/src/manifest/xml.rs :: fn escape_string_xml_buf

#[cfg(kani)]
mod harness {
    use super::*;
    fn s(t: &str) -> String { let mut x = String::new(); x.push_str(t); x }
    fn run(tag: &str, attrs: ObjValue, kids: usize, force: bool) -> String {
        let mut children = ::std::vec::Vec::new(); let mut i = 0; while i < kids { children.push(JSONMLValue::String(s("t"))); i += 1; }
        let v = JSONMLValue::Tag { tag: s(tag), attrs, children };
        let mut buf = String::new();
        match manifest_jsonml(&v, &mut buf, &XmlJsonmlFormat { force_closing: force }) { Ok(()) => {} Err(_) => panic!("obligation: a well-formed JSONML value manifests") }
        ::std::mem::forget(v);      // JSONMLValue's drop glue is recursive (Vec<JSONMLValue>): CBMC would unwind it to the loop bound
        buf
    }
    fn same(a: &String, want: &str) { assert!(a.len() == want.len(), "obligation: exact XML text"); let mut i = 0; while i < want.len() { assert!(a.as_bytes()[i] == want.as_bytes()[i], "obligation: exact XML text (markup characters in text and attribute values are entity-escaped)"); i += 1; } }
    /// LISTED JSONML values: attribute values that are strings, numbers and arrays (whose text contains < & "), text nodes,
    /// empty and non-empty elements under both closing conventions
    #[kani::proof]
    #[kani::unwind(70)]
    fn h_jsonml() {
        let none = ObjValue { n: 0, vals: [Val::Num(0); 2] };
        same(&run("p", none, 0, false), "<p/>");
        same(&run("p", none, 0, true), "<p></p>");
        same(&run("p", none, 1, false), "<p>{c}</p>");
        same(&run("p", ObjValue { n: 2, vals: [Val::Str(StrValue("x<y\"")), Val::Num(7)] }, 0, false), "<p a=\"x&lt;y&quot;\" b=\"7\"/>");
        same(&run("p", ObjValue { n: 1, vals: [Val::Arr(0), Val::Num(0)] }, 1, true), "<p a=\"[&quot;x&lt;&amp;&quot;]\">{c}</p>");
        let mut t = String::new();
        let leaf = JSONMLValue::String(s("a&b'"));
        match manifest_jsonml(&leaf, &mut t, &XmlJsonmlFormat::cli()) { Ok(()) => same(&t, "a&amp;b&apos;"), Err(_) => panic!("obligation: text nodes manifest") }
        ::std::mem::forget(leaf);
        kani::cover!(true);
    }
}
