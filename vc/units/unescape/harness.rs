// Kani unit unescape (C06, C04): string-literal escape decoding shared by both evaluator parsers.
#![allow(unused, dead_code)]
use std::str::Chars;
//@include fixed_string_only.rs

//@item crates/jrsonnet-ir/src/unescape.rs :: fn decode_unicode
//@item crates/jrsonnet-ir/src/unescape.rs :: fn unescape ;; keep-pub

#[cfg(kani)]
mod harness {
    use super::*;
    fn is(r: &Option<String>, want: &str) -> bool { match r { Some(s) => s.as_bytes() == want.as_bytes(), None => false } }
    /// the escapes of the Jsonnet grammar: \" \' \\ \/ \b \f \n \r \t ; text without backslashes is copied (multi-byte too);
    /// anything else after a backslash, and a trailing backslash, are rejected
    #[kani::proof]
    #[kani::unwind(12)]
    fn h_simple_escapes() {
        assert!(is(&unescape("\\\""), "\"") && is(&unescape("\\'"), "'") && is(&unescape("\\\\"), "\\"), "obligation: quote and backslash escapes");
        assert!(is(&unescape("a\\/b"), "a/b"), "obligation: \\/ denotes a slash (Jsonnet string escapes)");
        assert!(is(&unescape("\\b\\f\\n\\r\\t"), "\u{8}\u{c}\n\r\t"), "obligation: control escapes");
        assert!(is(&unescape("aé😀"), "aé😀") && is(&unescape(""), ""), "obligation: text without escapes is unchanged");
        assert!(unescape("\\q").is_none() && unescape("\\0").is_none() && unescape("ab\\").is_none(), "obligation: unknown and truncated escapes are rejected");
        kani::cover!(true);
    }
    /// \uXXXX on a LISTED set (symbolic hex digits did not finish in 15 min: UTF-8 decoding of symbolic bytes dominates):
    /// boundaries of the BMP, either digit case, lone surrogates rejected, surrogate pairs combined, malformed pairs rejected
    #[kani::proof]
    #[kani::unwind(14)]
    fn h_unicode() {
        assert!(is(&unescape("\\u0041"), "A") && is(&unescape("\\u00e9"), "é") && is(&unescape("\\u00E9"), "é") && is(&unescape("\\u2028"), "\u{2028}"), "obligation: \\uXXXX denotes the code point with that hexadecimal number (either digit case)");
        assert!(is(&unescape("\\ud7ff"), "\u{d7ff}") && is(&unescape("\\uE000"), "\u{e000}") && is(&unescape("\\uFFFF"), "\u{ffff}") && is(&unescape("\\u0000"), "\u{0}"), "obligation: the whole BMP outside the surrogate range");
        assert!(unescape("\\uD800").is_none() && unescape("\\uDFFF").is_none() && unescape("\\uDC00").is_none(), "obligation: a lone surrogate escape is rejected");
        assert!(unescape("\\u12").is_none() && unescape("\\u12G4").is_none(), "obligation: \\u needs four hex digits");
        assert!(is(&unescape("\\uD83D\\uDE00"), "😀") && is(&unescape("\\ud800\\udc00"), "\u{10000}") && is(&unescape("\\uDBFF\\uDFFF"), "\u{10ffff}"), "obligation: a surrogate pair denotes one astral code point");
        assert!(unescape("\\uD800x").is_none() && unescape("\\uD800\\u0041").is_none() && unescape("\\uD800\\n").is_none(), "obligation: a high surrogate must be followed by a low surrogate escape");
        kani::cover!(true);
    }
}
