// Kani unit check_path (C07): check_path of jrsonnet-evaluator/src/import.rs -- what a candidate location turns into.
// Contract: a regular file becomes a file source identified by its CANONICAL path (so that every spelling and every symlink of one
// file is one cache entry: read and evaluated once, cycles through alternative spellings detected); nothing there = "no match, try the
// next candidate"; a directory or other special file is an error, and so is any other I/O failure.
#![allow(unused, dead_code, static_mut_refs)]

// ---------------------------------------------------------------- stand-ins (trusted): the file system as a table
#[derive(Clone, Copy, PartialEq, Debug)] pub enum Node { Missing, File, Dir, Fifo, Denied }
/// a path: what is there, its canonical identity, and the identity of the spelling as written
#[derive(Clone, Copy, PartialEq, Debug)] pub struct Path { pub node: Node, pub canonical: u8, pub spelled: u8 }
#[derive(Clone, Copy, PartialEq, Debug)] pub struct PathBuf { pub id: u8, pub is_canonical: bool }
pub struct Disp; impl std::fmt::Display for Disp { fn fmt(&self, f: &mut std::fmt::Formatter<'_>) -> std::fmt::Result { f.write_str("p") } }
impl Path {
    pub fn canonicalize(&self) -> io::Result<PathBuf> { Ok(PathBuf { id: self.canonical, is_canonical: true }) }
    pub fn display(&self) -> Disp { Disp }
    pub fn to_path_buf(&self) -> PathBuf { PathBuf { id: self.spelled, is_canonical: false } }
    pub fn to_owned(&self) -> PathBuf { self.to_path_buf() }
}
pub mod io {
    #[derive(Clone, Copy, PartialEq, Debug)] pub enum ErrorKind { NotFound, PermissionDenied }
    #[derive(Debug)] pub struct Error(pub ErrorKind);
    impl Error { pub fn kind(&self) -> ErrorKind { self.0 } pub fn to_string(&self) -> crate::Text { crate::Text } }
    pub type Result<T> = core::result::Result<T, Error>;
}
use io::ErrorKind;
#[derive(Clone, Copy)] pub struct FileType(pub Node);
impl FileType { pub fn is_file(&self) -> bool { self.0 == Node::File } pub fn is_fifo(&self) -> bool { self.0 == Node::Fifo } pub fn is_dir(&self) -> bool { self.0 == Node::Dir } }
pub struct Metadata(pub Node); impl Metadata { pub fn file_type(&self) -> FileType { FileType(self.0) } pub fn is_file(&self) -> bool { self.0 == Node::File } pub fn is_dir(&self) -> bool { self.0 == Node::Dir } }
pub mod fs {
    use super::*;
    pub fn metadata(p: &Path) -> io::Result<Metadata> { match p.node { Node::Missing => Err(io::Error(io::ErrorKind::NotFound)), Node::Denied => Err(io::Error(io::ErrorKind::PermissionDenied)), n => Ok(Metadata(n)) } }
    pub fn read(_p: &Path) -> io::Result<Bytes> { Ok(Bytes) }
}
/// lexical alternatives std offers (they do not resolve symlinks / `..`): the spelling, not the canonical identity
pub mod std { pub use ::std::*; pub mod path { use crate::*; pub fn absolute(p: &Path) -> io::Result<PathBuf> { Ok(p.to_path_buf()) } } }
#[derive(Clone, Copy, PartialEq, Debug)] pub struct SourceFile(pub PathBuf);
impl SourceFile { pub fn new(p: PathBuf) -> Self { SourceFile(p) } }
#[derive(Clone, Copy, PartialEq, Debug)] pub struct IBytes;
impl From<&[u8]> for IBytes { fn from(_b: &[u8]) -> Self { IBytes } }
#[derive(Clone, Copy, PartialEq, Debug)] pub struct Text;
impl From<&str> for Text { fn from(_s: &str) -> Self { Text } }
pub struct Bytes; impl Bytes { pub fn as_slice(&self) -> &[u8] { b"fifo" } }
#[derive(Clone, Copy, PartialEq, Debug)] pub struct SourceFifo(pub Text, pub IBytes);
#[derive(Clone, Copy, PartialEq, Debug)] pub enum SourcePath { File(SourceFile), Fifo(SourceFifo) }
pub trait IntoSource { fn wrap(self) -> SourcePath; }
impl IntoSource for SourceFile { fn wrap(self) -> SourcePath { SourcePath::File(self) } }
impl IntoSource for SourceFifo { fn wrap(self) -> SourcePath { SourcePath::Fifo(self) } }
impl SourcePath { pub fn new<T: IntoSource>(t: T) -> Self { t.wrap() } }
macro_rules! format { ($($a:tt)*) => { Text } }
#[derive(Debug)] pub enum JrErrorKind { ImportIo(Text), RuntimeError(Text) }
pub use JrErrorKind::*;
#[derive(Debug)] pub struct Error(pub JrErrorKind);
impl From<JrErrorKind> for Error { fn from(e: JrErrorKind) -> Self { Error(e) } }
pub type Result<T> = core::result::Result<T, Error>;
macro_rules! bail { ($w:ident$(($($tt:tt)*))?) => { return Err($w$(($($tt)*))?.into()) }; }

// ---------------------------------------------------------------- extracted real code
//@item crates/jrsonnet-evaluator/src/import.rs :: fn check_path

#[cfg(kani)]
mod harness {
    use super::*;
    #[kani::proof]
    fn h_check_path() {
        let node = match kani::any::<u8>() % 5 { 0 => Node::Missing, 1 => Node::File, 2 => Node::Dir, 3 => Node::Fifo, _ => Node::Denied };
        let p = Path { node, canonical: 7, spelled: 9 };       // e.g. lib/../lib/x.libsonnet or a symlink: spelling 9, real file 7
        match (node, check_path(&p)) {
            (Node::File, Ok(Some(SourcePath::File(SourceFile(pb))))) => assert!(pb.id == 7 && pb.is_canonical, "obligation: a file is identified by its canonical path, so two spellings or a symlink of one file are one cache entry"),
            (Node::File, _) => panic!("obligation: an existing regular file resolves to a file source"),
            (Node::Missing, r) => assert!(matches!(r, Ok(None)), "obligation: nothing at the location means 'no match' (the next candidate is tried), not an error"),
            (Node::Fifo, r) => assert!(matches!(r, Ok(Some(SourcePath::Fifo(_)))), "obligation: a FIFO is read once into a virtual source"),
            (Node::Dir, r) => assert!(r.is_err(), "obligation: a directory target is an error"),
            (Node::Denied, r) => assert!(matches!(r, Err(Error(ImportIo(_)))), "obligation: any other I/O failure surfaces as an import error"),
        }
        kani::cover!(node == Node::File); kani::cover!(node == Node::Dir);
    }
}
