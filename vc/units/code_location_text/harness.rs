// Kani unit code_location_text (C17): print_code_location of trace/mod.rs -- how a (start, end) position pair is written in error
// traces and syntax errors.  `column` of a CodeLocation is the 1-based column + 1 (convention of offset_to_location, unit location):
// the start is printed as column - 1.  Contract: `line:col` for a point, `line:col-col` for a span on one line, and
// `line:col-line:col` with the START line and column first and the END line and column second for a span over several lines.
#![allow(unused, dead_code)]
use std::fmt::Write as _;

// ---------------------------------------------------------------- stand-ins (trusted)
//@include fixed_string_only.rs

// ---------------------------------------------------------------- extracted real code
//@item crates/jrsonnet-ir/src/location.rs :: struct CodeLocation ;; std-derives keep-pub
//@item crates/jrsonnet-evaluator/src/trace/mod.rs :: fn print_code_location

#[cfg(kani)]
mod harness {
    use super::*;
    fn loc(line: usize, column: usize) -> CodeLocation { CodeLocation { offset: 0, line, column, line_start_offset: 0, line_end_offset: 0 } }
    fn eq(a: &str, b: &str) -> bool { let (a, b) = (a.as_bytes(), b.as_bytes()); if a.len() != b.len() { return false; } let mut i = 0; while i < a.len() { if a[i] != b[i] { return false; } i += 1; } true }
    #[kani::proof] #[kani::unwind(12)]
    fn h_one_line() {
        let mut out = String::new();
        assert!(print_code_location(&mut out, &loc(3, 6), &loc(3, 6)).is_ok() && eq(out.as_str(), "3:5"), "obligation: a point is written line:column");
        let mut out = String::new();
        assert!(print_code_location(&mut out, &loc(3, 6), &loc(3, 9)).is_ok() && eq(out.as_str(), "3:5-9"), "obligation: a span on one line is written line:startcol-endcol");
    }
    #[kani::proof] #[kani::unwind(12)]
    fn h_multi_line() {
        let mut out = String::new();
        assert!(print_code_location(&mut out, &loc(2, 3), &loc(4, 8)).is_ok(), "obligation: formatting does not fail");
        assert!(eq(out.as_str(), "2:2-4:8"), "obligation: a span over several lines is written startline:startcol-endline:endcol (the construct's own start, then its end)");
    }
}
