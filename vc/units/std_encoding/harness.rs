// Kani unit std_encoding (C11): the encodeUTF8/decodeUTF8/base64/base64Decode/base64DecodeBytes wrappers around an
// abstract but invertible codec: decoders are left inverses of the encoders, invalid payloads are errors.
#![allow(unused, dead_code)]
//@include fixed_bytes.rs

// ---------------------------------------------------------------- stand-ins (trusted)
#[derive(Debug, Clone, Copy, PartialEq, Eq)]
pub struct Error;
pub type Result<T, E = Error> = std::result::Result<T, E>;
macro_rules! bail { ($l:literal) => { return Err(Error) }; }
macro_rules! runtime_error { ($l:literal $(, $($tt:tt)*)?) => { Error }; }
macro_rules! Either { [$a:ty, $b:ty] => { Either2<$a, $b> }; }
pub enum Either2<A, B> { A(A), B(B) }
/// interned byte / text values: up to 4 bytes, value semantics
#[derive(Debug, Clone, Copy, PartialEq, Eq)]
pub struct IBytes { pub b: [u8; 4], pub n: usize }
#[derive(Debug, Clone, Copy, PartialEq, Eq)]
pub struct IStr { pub b: [u8; 4], pub n: usize }
fn utf8_ok(b: &[u8]) -> bool { utf8_valid(b) }
impl IBytes {
    pub fn as_slice(&self) -> &[u8] { &self.b[..self.n] }
    /// contract of IBytes::cast_str (unit interner): Some exactly for valid UTF-8, same bytes
    pub fn cast_str(self) -> Option<IStr> { if utf8_ok(self.as_slice()) { Some(IStr { b: self.b, n: self.n }) } else { None } }
}
impl IStr {
    pub fn as_bytes(&self) -> &[u8] { &self.b[..self.n] }
    pub fn cast_bytes(self) -> IBytes { IBytes { b: self.b, n: self.n } }
}
impl From<&[u8]> for IBytes { fn from(s: &[u8]) -> Self { let mut b = [0u8; 4]; let mut i = 0; while i < s.len() && i < 4 { b[i] = s[i]; i += 1; } assert!(s.len() <= 4); IBytes { b, n: s.len() } } }
impl From<std::borrow::Cow<'_, str>> for IStr { fn from(s: std::borrow::Cow<'_, str>) -> Self { let s = s.as_bytes(); let mut b = [0u8; 4]; let mut i = 0; while i < s.len() && i < 4 { b[i] = s[i]; i += 1; } IStr { b, n: if s.len() < 4 { s.len() } else { 4 } } } }
/// abstract codec standing in for base64's STANDARD engine: one payload byte <-> two characters 'A'+hi, 'A'+lo.
/// (Injective, ASCII-only output, rejects everything else: the only facts about base64 the wrappers rely on.)
pub struct Engine;
pub static STANDARD: Engine = Engine;
pub struct DecodeError;
impl std::fmt::Display for DecodeError { fn fmt(&self, _f: &mut std::fmt::Formatter<'_>) -> std::fmt::Result { Ok(()) } }
impl Engine {
    pub fn encode(&self, b: &[u8]) -> String { let mut s = String::new(); let mut i = 0; while i < b.len() { s.push((b'A' + (b[i] >> 4)) as char); s.push((b'A' + (b[i] & 15)) as char); i += 1; } s }
    pub fn decode(&self, s: &[u8]) -> Result<Vec<u8>, DecodeError> {
        if s.len() % 2 != 0 { return Err(DecodeError); }
        let mut v: Vec<u8> = Vec::new(); let mut i = 0;
        while i + 1 < s.len() { let (h, l) = (s[i], s[i + 1]); if h < b'A' || h > b'P' || l < b'A' || l > b'P' { return Err(DecodeError); } v.push(((h - b'A') << 4) | (l - b'A')); i += 2; }
        Ok(v)
    }
}
pub trait TextLike { fn text_bytes(&self) -> &[u8]; }
impl TextLike for String { fn text_bytes(&self) -> &[u8] { self.as_bytes() } }
impl TextLike for IStr { fn text_bytes(&self) -> &[u8] { self.as_bytes() } }

// ---------------------------------------------------------------- extracted real code
//@item crates/jrsonnet-stdlib/src/encoding.rs :: fn builtin_encode_utf8 ;; keep-pub
//@item crates/jrsonnet-stdlib/src/encoding.rs :: fn builtin_decode_utf8 ;; keep-pub
//@item crates/jrsonnet-stdlib/src/encoding.rs :: fn builtin_base64 ;; keep-pub
//@item crates/jrsonnet-stdlib/src/encoding.rs :: fn builtin_base64_decode_bytes ;; keep-pub
//@item crates/jrsonnet-stdlib/src/encoding.rs :: fn builtin_base64_decode ;; keep-pub

#[cfg(kani)]
mod harness {
    use super::*;
    fn text_of<T: TextLike>(r: Result<T>) -> Option<([u8; 4], usize)> { match r { Ok(t) => { let b = t.text_bytes(); let mut o = [0u8; 4]; let mut i = 0; while i < b.len() && i < 4 { o[i] = b[i]; i += 1; } Some((o, b.len())) } Err(_) => None } }

    /// one payload byte (all 256 values): base64DecodeBytes(base64(x)) == x; base64Decode(base64(x)) is the same text
    /// for valid UTF-8 and an ERROR otherwise (never a silently different string); decodeUTF8 strict likewise
    #[kani::proof]
    #[kani::unwind(8)]
    fn h_codec_roundtrip() {
        let x: u8 = kani::any();
        let payload = IBytes { b: [x, 0, 0, 0], n: 1 };
        let enc = builtin_base64(Either2::B(payload));
        assert!(enc.len() == 2, "obligation: encoder output is text");
        let es = IStr { b: [enc.as_bytes()[0], enc.as_bytes()[1], 0, 0], n: 2 };
        match builtin_base64_decode_bytes(es) { Ok(b) => assert!(b == payload, "obligation: base64DecodeBytes is a left inverse of base64"), Err(_) => panic!("obligation: decoding an encoder's output succeeds") }
        let valid = x < 0x80;
        match text_of(builtin_base64_decode(es)) {
            Some((b, n)) => { assert!(valid, "obligation: base64Decode of a non-UTF-8 payload is an error, not a silently altered string"); assert!(n == 1 && b[0] == x, "obligation: base64Decode returns exactly the decoded text"); }
            None => assert!(!valid, "obligation: base64Decode of valid text succeeds"),
        }
        match builtin_decode_utf8(payload, false) { Ok(s) => assert!(valid && s.as_bytes() == payload.as_slice(), "obligation: strict decodeUTF8 returns the same bytes"), Err(_) => assert!(!valid, "obligation: strict decodeUTF8 fails only on invalid UTF-8") }
        if valid { let s = IStr { b: [x, 0, 0, 0], n: 1 }; assert!(builtin_encode_utf8(s) == payload && builtin_decode_utf8(builtin_encode_utf8(s), true) == Ok(s), "obligation: decodeUTF8 is a left inverse of encodeUTF8"); }
        assert!(builtin_base64_decode_bytes(IStr { b: [b'!', b'A', 0, 0], n: 2 }).is_err(), "obligation: malformed input is an error");
        kani::cover!(!valid);
        kani::cover!(valid);
    }
}
