// Kani unit obj_walkers (C02, C13, C04): the four layer walkers of ObjValue against a reference
// semantics written from the property; layers answer nondeterministically but consistently.
#![allow(unused, dead_code, non_snake_case, unreachable_code)]
use std::num::Saturating;
use std::ops::ControlFlow;

// ---------------------------------------------------------------- stand-ins (trusted)
pub const MAXL: usize = 4;
pub type IStr = u8;                       // field names: the tracked name is 7, a decoy is 9
#[derive(Debug, Clone, Copy, PartialEq, Eq)]
pub struct Val(pub u8);
pub struct Error;
pub type Result<T> = std::result::Result<T, Error>;
// deliberately non-associative, non-commutative "+": ((a+b)+c) != (a+(b+c)), a+b != b+a
pub fn evaluate_add_op(a: &Val, b: &Val) -> Result<Val> { Ok(Val(a.0.wrapping_mul(3).wrapping_add(b.0).wrapping_add(1))) }
#[derive(Debug, Clone, Copy, PartialEq, Eq, Default)]
pub struct SuperDepth(());
impl SuperDepth { fn deepen(self) {} }
#[derive(Debug, Clone, Copy, PartialEq, Eq, Default, PartialOrd, Ord)]
pub struct FieldIndex(());
#[derive(Debug, Clone, Copy, PartialEq, Eq)]
pub struct FieldSortKey;
impl FieldSortKey { pub fn new(_d: SuperDepth, _i: FieldIndex) -> Self { FieldSortKey } }

/// One layer, as seen through the ObjectCore interface for the tracked name.
#[derive(Debug, Clone, Copy, PartialEq, Eq)]
pub enum Layer { None, Field { vis: Visibility, add: bool, val: Val }, Omit(usize) }
#[derive(Debug, Clone, Copy)]
pub struct CcObjectCore(pub Layer);
impl Layer {
    // mirrors OopObject / OmitFieldsCore / StandaloneSuperCore (obj/oop.rs, obj/mod.rs): a field layer answers
    // Exists / Found(vis) / Final|SuperPlus (NotFound when omit_only); an omit layer answers Omit(prev_layers)
    pub fn has_field_include_hidden_core(&self, name: IStr) -> HasFieldIncludeHidden {
        if name != 7 { return HasFieldIncludeHidden::NotFound; }
        match self { Layer::None => HasFieldIncludeHidden::NotFound, Layer::Field { .. } => HasFieldIncludeHidden::Exists, Layer::Omit(k) => HasFieldIncludeHidden::Omit(Saturating(*k)) }
    }
    pub fn field_visibility_core(&self, name: IStr) -> FieldVisibility {
        if name != 7 { return FieldVisibility::NotFound; }
        match self { Layer::None => FieldVisibility::NotFound, Layer::Field { vis, .. } => FieldVisibility::Found(*vis), Layer::Omit(k) => FieldVisibility::Omit(Saturating(*k)) }
    }
    pub fn get_for_core(&self, name: IStr, _st: SupThis, omit_only: bool) -> Result<GetFor> {
        if name != 7 { return Ok(GetFor::NotFound); }
        Ok(match self {
            Layer::None => GetFor::NotFound,
            Layer::Field { add, val, .. } => if omit_only { GetFor::NotFound } else if *add { GetFor::SuperPlus(*val) } else { GetFor::Final(*val) },
            Layer::Omit(k) => GetFor::Omit(Saturating(*k)),
        })
    }
    pub fn enum_fields_core(&self, depth: &mut SuperDepth, handler: &mut dyn FnMut(SuperDepth, FieldIndex, IStr, EnumFields) -> ControlFlow<()>) -> bool {
        match self {
            Layer::None => true,
            Layer::Field { vis, .. } => handler(*depth, FieldIndex(()), 7, EnumFields::Normal(*vis)) == ControlFlow::Continue(()),
            Layer::Omit(k) => handler(*depth, FieldIndex(()), 7, EnumFields::Omit(Saturating(*k))) == ControlFlow::Continue(()),
        }
    }
}
#[derive(Debug, Clone, Copy)]
pub struct ObjValueInner { pub cores: [CcObjectCore; MAXL], pub n: usize }
#[derive(Debug, Clone, Copy)]
pub struct ObjValue(pub ObjValueInner);
impl ObjValue { pub fn run_assertions(&self) -> Result<()> { Ok(()) } }
pub struct CoreSlice<'a>(&'a [CcObjectCore]);
// `self.0.cores[..idx]` and `self.0.cores.iter()` must see only the n live layers
impl ObjValueInner { }
#[derive(Debug, Clone, Copy, PartialEq, Eq)]
pub struct CoreIdx { pub idx: usize }
#[derive(Debug, Clone, Copy)]
pub struct SupThis { pub sup: CoreIdx, pub this: ObjValue }

/// fixed-capacity stand-in for std::vec::Vec as used by get_idx_uncached (new, push, pop, is_empty, insert(0,_),
/// into_iter().rev(), next, try_fold): keeps CBMC away from the allocator. Capacity MAXL+1 is enough for MAXL layers.
#[derive(Clone, Copy)]
pub struct Vec<T: Copy> { buf: [Option<T>; 6], len: usize }
impl<T: Copy> Vec<T> {
    pub fn new() -> Self { Vec { buf: [None; 6], len: 0 } }
    pub fn push(&mut self, v: T) { assert!(self.len < 6, "stand-in Vec capacity"); self.buf[self.len] = Some(v); self.len += 1; }
    pub fn pop(&mut self) -> Option<T> { if self.len == 0 { None } else { self.len -= 1; self.buf[self.len].take() } }
    pub fn is_empty(&self) -> bool { self.len == 0 }
    pub fn insert(&mut self, at: usize, v: T) {
        assert!(at <= self.len && self.len < 6, "stand-in Vec insert");
        let mut i = self.len; while i > at { self.buf[i] = self.buf[i - 1]; i -= 1; }
        self.buf[at] = Some(v); self.len += 1;
    }
    pub fn into_iter(self) -> VecIter<T> { VecIter { v: self, lo: 0, hi: self.len } }
}
#[derive(Clone, Copy)]
pub struct VecIter<T: Copy> { v: Vec<T>, lo: usize, hi: usize }
impl<T: Copy> Iterator for VecIter<T> { type Item = T; fn next(&mut self) -> Option<T> { if self.lo < self.hi { self.lo += 1; self.v.buf[self.lo - 1] } else { None } } }
impl<T: Copy> DoubleEndedIterator for VecIter<T> { fn next_back(&mut self) -> Option<T> { if self.lo < self.hi { self.hi -= 1; self.v.buf[self.hi] } else { None } } }

/// one-slot map: the walkers are exercised with a single tracked name
pub struct FxHashMap<K, V> { slot: Option<(K, V)> }
pub struct EntryRef<'a, K, V> { m: &'a mut FxHashMap<K, V>, k: K }
impl<K: PartialEq + Copy, V> FxHashMap<K, V> {
    pub fn default() -> Self { FxHashMap { slot: None } }
    pub fn entry(&mut self, k: K) -> EntryRef<'_, K, V> { EntryRef { m: self, k } }
    pub fn retain(&mut self, mut f: impl FnMut(&K, &mut V) -> bool) { if let Some((k, v)) = &mut self.slot { if !f(k, v) { self.slot = None; } } }
    pub fn get(&self, k: &K) -> Option<&V> { match &self.slot { Some((kk, v)) if kk == k => Some(v), _ => None } }
}
impl<'a, K: PartialEq + Copy, V> EntryRef<'a, K, V> {
    pub fn or_insert_with(self, f: impl FnOnce() -> V) -> &'a mut V {
        let fresh = match &self.m.slot { Some((kk, _)) => { assert!(*kk == self.k, "stand-in map holds one key"); false } None => true };
        if fresh { self.m.slot = Some((self.k, f())); }
        &mut self.m.slot.as_mut().unwrap().1
    }
}

// ---------------------------------------------------------------- extracted real code
//@item crates/jrsonnet-ir/src/expr.rs :: enum Visibility ;; std-derives keep-pub
//@item crates/jrsonnet-ir/src/expr.rs :: impl Visibility ;; keep-pub
type Skip = Saturating<usize>;
//@item crates/jrsonnet-evaluator/src/obj/mod.rs :: enum EnumFields ;; keep-pub
//@item crates/jrsonnet-evaluator/src/obj/mod.rs :: enum GetFor ;; std-derives keep-pub
//@item crates/jrsonnet-evaluator/src/obj/mod.rs :: enum FieldVisibility ;; std-derives keep-pub
//@item crates/jrsonnet-evaluator/src/obj/mod.rs :: enum HasFieldIncludeHidden ;; std-derives keep-pub
//@item crates/jrsonnet-evaluator/src/obj/mod.rs :: struct FieldVisibilityData ;; std-derives
//@item crates/jrsonnet-evaluator/src/obj/mod.rs :: impl FieldVisibilityData
//@item crates/jrsonnet-evaluator/src/obj/mod.rs :: struct ObjFieldFlags ;; std-derives keep-pub
//@item crates/jrsonnet-evaluator/src/obj/mod.rs :: impl ObjFieldFlags ;; keep-pub
impl ObjValue {
//@item crates/jrsonnet-evaluator/src/obj/mod.rs :: impl ObjValue #* > fn has_field_include_hidden_idx
//@item crates/jrsonnet-evaluator/src/obj/mod.rs :: impl ObjValue #* > fn field_visibility_idx
//@item crates/jrsonnet-evaluator/src/obj/mod.rs :: impl ObjValue #* > fn get_idx_uncached
//@item crates/jrsonnet-evaluator/src/obj/mod.rs :: impl ObjValue #* > fn fields_visibility
//@item crates/jrsonnet-evaluator/src/obj/mod.rs :: impl ObjValue #* > fn has_field_include_hidden ;; keep-pub
//@item crates/jrsonnet-evaluator/src/obj/mod.rs :: impl ObjValue #* > fn field_visibility
//@item crates/jrsonnet-evaluator/src/obj/mod.rs :: impl ObjValue #* > fn has_field ;; keep-pub
//@item crates/jrsonnet-evaluator/src/obj/mod.rs :: impl ObjValue #* > fn has_field_ex ;; keep-pub
}

// ---------------------------------------------------------------- harnesses
#[cfg(kani)]
mod harness {
    use super::*;

    fn any_vis() -> Visibility { let v: u8 = kani::any(); kani::assume(v < 3); match v { 0 => Visibility::Normal, 1 => Visibility::Hidden, _ => Visibility::Unhide } }
    fn any_layer(pos: usize) -> Layer {
        let k: u8 = kani::any(); kani::assume(k < 3);
        match k {
            0 => Layer::None,
            1 => Layer::Field { vis: any_vis(), add: kani::any(), val: Val(kani::any()) },
            _ => { let c: usize = kani::any(); kani::assume(c <= pos); Layer::Omit(c) } // prev_layers <= number of layers beneath (with_fields_omitted)
        }
    }
    /// omit ranges built through ObjValueBuilder::with_fields_omitted + extend_from form a laminar family
    fn laminar(ls: &[Layer; MAXL], n: usize) -> bool {
        let mut ok = true;
        let mut m2 = 0;
        while m2 < n {
            if let Layer::Omit(k2) = ls[m2] {
                let mut m1 = 0;
                while m1 < m2 {
                    if let Layer::Omit(k1) = ls[m1] {
                        if m1 >= m2 - k2 && m1 - k1 < m2 - k2 { ok = false; }
                    }
                    m1 += 1;
                }
            }
            m2 += 1;
        }
        ok
    }
    fn any_obj() -> (ObjValue, [Layer; MAXL], usize) {
        let n: usize = MAXL; // fixed: a shorter chain is exactly this chain looked at from a lower start index
        let ls = [any_layer(0), any_layer(1), any_layer(2), any_layer(3)];
        kani::assume(laminar(&ls, n));
        // layers at positions >= n do not exist: make them poison fields so that an out-of-range read shows
        let mut cores = [CcObjectCore(Layer::Field { vis: Visibility::Unhide, add: false, val: Val(0xDD) }); MAXL];
        let mut i = 0; while i < n { cores[i] = CcObjectCore(ls[i]); i += 1; }
        (ObjValue(ObjValueInner { cores, n }), ls, n)
    }

    // ---------------- reference semantics (from the property statement)
    /// layer j is masked for a lookup starting at idx if a removed-key layer m (j < m < idx) covers it
    fn masked(ls: &[Layer; MAXL], j: usize, idx: usize) -> bool {
        let mut m = j + 1; let mut r = false;
        while m < idx { if let Layer::Omit(k) = ls[m] { if j + k >= m { r = true; } } m += 1; }
        r
    }
    fn defines(ls: &[Layer; MAXL], j: usize, idx: usize) -> bool { matches!(ls[j], Layer::Field { .. }) && !masked(ls, j, idx) }
    fn ref_has(ls: &[Layer; MAXL], idx: usize) -> bool { let mut j = 0; let mut r = false; while j < idx { if defines(ls, j, idx) { r = true; } j += 1; } r }
    /// right-most defining layer with an explicit :: or ::: decides; otherwise default-visible
    fn ref_vis(ls: &[Layer; MAXL], idx: usize) -> Option<Visibility> {
        if !ref_has(ls, idx) { return None; }
        let mut j = idx;
        while j > 0 { j -= 1; if defines(ls, j, idx) { if let Layer::Field { vis, .. } = ls[j] { if vis != Visibility::Normal { return Some(vis); } } } }
        Some(Visibility::Normal)
    }
    /// value: right-most defining layer; `+:` layers accumulate onto the inherited value, folded from the base up
    fn ref_get(ls: &[Layer; MAXL], idx: usize) -> Option<Val> {
        // find the base: walk down from the top through defining `+:` layers until a plain definition (inclusive) or the bottom
        let mut top = idx; let mut found = false;
        while top > 0 { top -= 1; if defines(ls, top, idx) { found = true; break; } }
        if !found { return None; }
        let mut base = top;
        loop {
            if let Layer::Field { add: false, .. } = ls[base] { break; }
            // look for the next defining layer below
            let mut b = base; let mut nf = false;
            while b > 0 { b -= 1; if defines(ls, b, idx) { nf = true; break; } }
            if !nf { break; }
            base = b;
        }
        let mut acc: Option<Val> = None;
        let mut j = base;
        while j <= top {
            if defines(ls, j, idx) { if let Layer::Field { val, .. } = ls[j] { acc = Some(match acc { None => val, Some(a) => evaluate_add_op(&a, &val).ok().unwrap() }); } }
            j += 1;
        }
        acc
    }

    fn check_has_field(idx: usize) {
        let (o, ls, n) = any_obj();
        assert!(o.has_field_include_hidden_idx(7, CoreIdx { idx }) == ref_has(&ls, idx), "obligation: field existence (in / objectHasAll / in super) = some unmasked defining layer below the start");
        assert!(!o.has_field_include_hidden_idx(9, CoreIdx { idx }), "obligation: undefined name does not exist");
        kani::cover!(idx == 0 || ref_has(&ls, idx));
        kani::cover!(idx < 3 || (!ref_has(&ls, idx) && matches!(ls[2], Layer::Omit(2)) && matches!(ls[0], Layer::Field{..})));
    }

    fn check_visibility(idx: usize) {
        let (o, ls, n) = any_obj();
        assert!(o.field_visibility_idx(7, CoreIdx { idx }) == ref_vis(&ls, idx), "obligation: visibility merge (right-most explicit ::/::: wins, : inherits)");
        kani::cover!(idx == 0 || ref_vis(&ls, idx) == Some(Visibility::Hidden));
        kani::cover!(idx == 0 || ref_vis(&ls, idx) == Some(Visibility::Normal));
    }

    fn check_get(idx: usize) {
        let (o, ls, n) = any_obj();
        let r = match o.get_idx_uncached(7, CoreIdx { idx }) { Ok(v) => v, Err(_) => panic!("obligation: lookup over total layers cannot fail") };
        assert!(r == ref_get(&ls, idx), "obligation: value = right-most definition, +: folded onto inherited value from the base up, removed keys masked");
        kani::cover!(idx < 4 || (matches!(ls[3], Layer::Field { add: true, .. }) && matches!(ls[2], Layer::Field { add: true, .. }) && matches!(ls[1], Layer::Field { add: false, .. })));
        kani::cover!(idx < 4 || (r.is_none() && matches!(ls[0], Layer::Field { .. })));
    }

    /// the four walkers agree with each other at the top level: `in`, objectHas(All), get != None, membership in the field lists
    #[kani::proof]
    #[kani::unwind(6)]
    fn h_agree() {
        let (o, ls, n) = any_obj();
        let top = CoreIdx { idx: n };
        let has = o.has_field_include_hidden_idx(7, top);
        let vis = o.field_visibility_idx(7, top);
        let got = match o.get_idx_uncached(7, top) { Ok(v) => v, Err(_) => panic!("obligation: lookup cannot fail") };
        assert!(has == vis.is_some() && has == got.is_some(), "obligation: existence, visibility and value lookups agree");
        kani::cover!(has);
        kani::cover!(!has);
    }

    /// fields_visibility (objectFields / objectFieldsAll / manifestation / length) agrees with the per-name walkers
    #[kani::proof]
    #[kani::unwind(6)]
    fn h_fields_visibility() {
        let (o, ls, n) = any_obj();
        let mut oo = o; // fields_visibility iterates `self.0.cores.iter().rev()`: restrict to the n live layers
        let mut i = n; while i < MAXL { oo.0.cores[i] = CcObjectCore(Layer::None); i += 1; }
        // live layers sit at the bottom; shift so that dead slots are on the *left* (bottom), where None is neutral
        let mut sh = [CcObjectCore(Layer::None); MAXL];
        let mut j = 0; while j < n { sh[MAXL - n + j] = oo.0.cores[j]; j += 1; }
        let shifted = ObjValue(ObjValueInner { cores: sh, n: MAXL });
        let map = shifted.fields_visibility();
        let want = ref_vis(&ls, n);
        match map.get(&7) {
            Some(d) => { assert!(d.exists_visible == want, "obligation: field list visibility = per-name visibility"); assert!(d.visible() == matches!(want, Some(Visibility::Normal | Visibility::Unhide))); }
            None => assert!(want.is_none(), "obligation: a field that exists is listed"),
        }
        kani::cover!(want == Some(Visibility::Unhide));
        kani::cover!(want.is_none());
    }

    /// ObjFieldFlags packs (add, visibility) losslessly
    #[kani::proof]
    fn h_flags() {
        let add: bool = kani::any(); let v = any_vis();
        let f = ObjFieldFlags::new(add, v);
        assert!(f.add() == add && f.visibility() == v, "obligation: flags round-trip");
        kani::cover!(add && v == Visibility::Unhide);
    }

    /// has_field / has_field_ex: `include_hidden` selects the right walker; hidden fields are not `has_field`
    #[kani::proof]
    #[kani::unwind(6)]
    fn h_has_field_ex() {
        let (o, ls, n) = any_obj();
        kani::assume(n == MAXL);
        let want = ref_vis(&ls, MAXL);
        assert!(o.has_field_ex(7, true) == want.is_some(), "obligation: objectHasAll / in = exists at all");
        assert!(o.has_field_ex(7, false) == matches!(want, Some(Visibility::Normal | Visibility::Unhide)), "obligation: objectHas = exists and visible");
        kani::cover!(want == Some(Visibility::Hidden));
    }
    #[kani::proof]
    #[kani::unwind(6)]
    fn h_has_field_i0() { check_has_field(0); }
    #[kani::proof]
    #[kani::unwind(6)]
    fn h_has_field_i1() { check_has_field(1); }
    #[kani::proof]
    #[kani::unwind(6)]
    fn h_has_field_i2() { check_has_field(2); }
    #[kani::proof]
    #[kani::unwind(6)]
    fn h_has_field_i3() { check_has_field(3); }
    #[kani::proof]
    #[kani::unwind(6)]
    fn h_has_field_i4() { check_has_field(4); }
    #[kani::proof]
    #[kani::unwind(6)]
    fn h_visibility_i0() { check_visibility(0); }
    #[kani::proof]
    #[kani::unwind(6)]
    fn h_visibility_i1() { check_visibility(1); }
    #[kani::proof]
    #[kani::unwind(6)]
    fn h_visibility_i2() { check_visibility(2); }
    #[kani::proof]
    #[kani::unwind(6)]
    fn h_visibility_i3() { check_visibility(3); }
    #[kani::proof]
    #[kani::unwind(6)]
    fn h_visibility_i4() { check_visibility(4); }
    #[kani::proof]
    #[kani::unwind(6)]
    fn h_get_i0() { check_get(0); }
    #[kani::proof]
    #[kani::unwind(6)]
    fn h_get_i1() { check_get(1); }
    #[kani::proof]
    #[kani::unwind(6)]
    fn h_get_i2() { check_get(2); }
    #[kani::proof]
    #[kani::unwind(6)]
    fn h_get_i3() { check_get(3); }
    #[kani::proof]
    #[kani::unwind(6)]
    fn h_get_i4() { check_get(4); }
}
