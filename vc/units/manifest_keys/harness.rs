// Kani unit manifest_keys (C14, C04): key / escape predicates of the YAML, TOML and XML writers.
#![allow(unused, dead_code)]

// ---------------------------------------------------------------- stand-ins (trusted)
//@include fixed_string.rs
pub struct Error;
pub type Result<T> = std::result::Result<T, Error>;
#[derive(Debug, Clone, Copy)]
pub struct ObjValue;
#[derive(Debug, Clone, Copy)]
pub struct ArrValue { pub kinds: [u8; 3], pub n: usize }       // element kind: 0 = object, 1 = number, 2 = string
pub struct ArrIter { a: ArrValue, i: usize }
impl Iterator for ArrIter { type Item = Result<Val>; fn next(&mut self) -> Option<Result<Val>> { if self.i < self.a.n { self.i += 1; Some(Ok(match self.a.kinds[self.i - 1] { 0 => Val::Obj(ObjValue), 1 => Val::Num(1.0), _ => Val::Str })) } else { None } } }
impl ArrValue { pub fn is_empty(&self) -> bool { self.n == 0 } pub fn iter(&self) -> ArrIter { ArrIter { a: *self, i: 0 } } }
#[derive(Debug, Clone, Copy)]
pub enum Val { Null, Bool(bool), Num(f64), Str, Arr(ArrValue), Obj(ObjValue) }
pub fn escape_string_json_buf(value: &str, buf: &mut String) { buf.push('"'); buf.push_str(value); buf.push('"'); } // verified in unit json_escape

// ---------------------------------------------------------------- extracted real code
//@item crates/jrsonnet-stdlib/src/manifest/yaml.rs :: fn bare_safe
//@item crates/jrsonnet-stdlib/src/manifest/toml.rs :: fn bare_allowed
//@item crates/jrsonnet-stdlib/src/manifest/toml.rs :: fn escape_key_toml_buf
//@item crates/jrsonnet-stdlib/src/manifest/toml.rs :: fn is_section
//@item crates/jrsonnet-stdlib/src/manifest/xml.rs :: fn escape_string_xml_buf

#[cfg(kani)]
mod harness {
    use super::*;
    fn ascii(b: &[u8]) -> &str { unsafe { std::str::from_utf8_unchecked(b) } }

    /// TOML v1.0 bare keys: non-empty, only A-Za-z0-9_- ; anything else must be quoted
    #[kani::proof]
    #[kani::unwind(6)]
    fn h_toml_bare() {
        let bytes: [u8; 3] = kani::any(); let n: usize = kani::any(); kani::assume(n <= 3);
        kani::assume(bytes[0] < 0x80 && bytes[1] < 0x80 && bytes[2] < 0x80);
        let s = ascii(&bytes[..n]);
        let ok_char = |c: u8| c.is_ascii_alphanumeric() || c == b'_' || c == b'-';
        let mut all = true; let mut i = 0; while i < n { if !ok_char(bytes[i]) { all = false; } i += 1; }
        assert!(bare_allowed(s) == (n > 0 && all), "obligation: a TOML key is written bare iff it is non-empty and consists of A-Za-z0-9_-");
        kani::cover!(n == 0);
        kani::cover!(n == 3 && all);
    }

    /// TOML: which values become [section] / [[array of tables]]: objects, and NON-EMPTY arrays of only objects
    #[kani::proof]
    #[kani::unwind(6)]
    fn h_toml_is_section() {
        let kinds: [u8; 3] = kani::any(); let n: usize = kani::any(); kani::assume(n <= 3);
        kani::assume(kinds[0] < 3 && kinds[1] < 3 && kinds[2] < 3);
        let mut allobj = true; let mut i = 0; while i < n { if kinds[i] != 0 { allobj = false; } i += 1; }
        let r = match is_section(&Val::Arr(ArrValue { kinds, n })) { Ok(v) => v, Err(_) => panic!("obligation: is_section cannot fail on evaluated elements") };
        assert!(r == (n > 0 && allobj), "obligation: an array is an array-of-tables iff it is non-empty and all elements are objects (an empty array is the inline value [])");
        assert!(matches!(is_section(&Val::Obj(ObjValue)), Ok(true)) && matches!(is_section(&Val::Num(1.0)), Ok(false)) && matches!(is_section(&Val::Null), Ok(false)) && matches!(is_section(&Val::Str), Ok(false)), "obligation: objects are sections, scalars are not");
        kani::cover!(n == 0);
        kani::cover!(n == 3 && allobj);
    }

    /// XML text/attribute escaping: no raw < > & " ' survives, and decoding the five entities gives the input back
    #[kani::proof]
    #[kani::unwind(20)]
    fn h_xml_escape() { check_xml(2); }
    /// every single ASCII character: complete
    #[kani::proof]
    #[kani::unwind(20)]
    fn h_xml_escape_char() { check_xml(1); }
    fn check_xml(n: usize) {
        let bytes: [u8; 3] = kani::any();     // concrete length keeps String growth concrete
        kani::assume(bytes[0] < 0x80 && bytes[1] < 0x80 && bytes[2] < 0x80);
        let mut out = String::new();
        escape_string_xml_buf(ascii(&bytes[..n]), &mut out);
        let o = out.as_bytes();
        let mut i = 0; let mut k = 0;
        while i < o.len() {
            let c = o[i];
            assert!(c != b'<' && c != b'>' && c != b'"' && c != b'\'', "obligation: markup characters never appear raw in XML text");
            let d = if c == b'&' {
                let rest = &o[i..];
                if rest.starts_with(b"&lt;") { i += 4; b'<' } else if rest.starts_with(b"&gt;") { i += 4; b'>' } else if rest.starts_with(b"&amp;") { i += 5; b'&' }
                else if rest.starts_with(b"&quot;") { i += 6; b'"' } else if rest.starts_with(b"&apos;") { i += 6; b'\'' } else { panic!("obligation: & only starts one of the five predefined entities") }
            } else { i += 1; c };
            assert!(k < n && bytes[k] == d, "obligation: escaped text decodes to the original characters in order");
            k += 1;
        }
        assert!(k == n, "obligation: nothing is dropped");
        kani::cover!(bytes[0] == b'&' && (n < 2 || bytes[1] == b'<'));
    }

    /// YAML 1.1 plain-scalar hazards: a key that an independent YAML parser would read as bool / null / number / date / document marker must NOT be emitted bare
    /// quick subset: one mixed-case keyword of each family, a number, a date, the empty key
    #[kani::proof]
    #[kani::unwind(18)]
    fn h_yaml_bare_safe_core() {
        const HAZARD: [&str; 5] = ["Yes", "NULL", "-12", "", "2001-01-01"];
        let mut i = 0; while i < 5 { assert!(!bare_safe(HAZARD[i]), "obligation: YAML 1.1 keyword / number / date / marker look-alikes are quoted (any letter case)"); i += 1; }
        assert!(bare_safe("abc"), "obligation: ordinary identifiers stay bare");
        kani::cover!(i == 5);
    }
    #[kani::proof]
    #[kani::unwind(18)]
    fn h_yaml_bare_safe() {
        const HAZARD: [&str; 16] = ["true", "False", "Yes", "NO", "On", "off", "Y", "n", "NULL", ".NaN", "-.inf", "", "---", "-12", "0x1F", "2001-01-01"];
        const PLAIN: [&str; 3] = ["abc", "ok/path", "Truthy"];
        // concrete table walk: CBMC executes each call with constant data
        let mut i = 0; while i < 16 { assert!(!bare_safe(HAZARD[i]), "obligation: YAML 1.1 keyword / number / date / marker look-alikes are quoted (any letter case)"); i += 1; }
        let mut j = 0; while j < 3 { assert!(bare_safe(PLAIN[j]), "obligation: ordinary identifiers stay bare"); j += 1; }
        kani::cover!(i == 16);
    }
}
