// Verus unit set_member_verus (C10, C09 carrier, C04): std.setMember binary search, for arrays of ANY length.
use vstd::prelude::*;
verus! {

pub struct Error { pub e: u8 }
pub type Result<T> = core::result::Result<T, Error>;
pub struct Val { pub k: int }                 // a key value, totally ordered by `k` (coherence of the order with ==: unit num_core)
pub struct ThunkVal { pub id: int }           // a lazy element
pub enum Ordering { Less, Equal, Greater }
pub enum BinaryOpType { Lt }

pub uninterp spec fn key_of(t: ThunkVal) -> int;       // keyF as a mathematical function of the element

#[verifier::external_body]
pub struct KeyF { _p: core::marker::PhantomData<u8> }
impl KeyF {
    #[verifier::external_body]
    pub fn eval(&self, v: ThunkVal) -> (r: Result<Val>)
        ensures r is Ok ==> r->Ok_0.k == key_of(v),
    { unimplemented!() }
}

#[verifier::external_body]
pub struct ArrValue { _p: core::marker::PhantomData<u8> }
impl ArrValue {
    pub uninterp spec fn view(&self) -> Seq<ThunkVal>;
    #[verifier::external_body]
    pub fn len(&self) -> (r: usize) ensures r as int == self.view().len() { unimplemented!() }
    /// ArrayLike contract (unit arr_views): Some(element) in bounds, None otherwise
    #[verifier::external_body]
    pub fn get_lazy(&self, index: usize) -> (r: Option<ThunkVal>)
        ensures (index as int) < self.view().len() ==> r == Some(self.view()[index as int]),
                index as int >= self.view().len() ==> r is None,
    { unimplemented!() }
}

/// contract of evaluate_compare_op on comparable keys: the three-way comparison of the keys
#[verifier::external_body]
pub fn evaluate_compare_op(a: &Val, b: &Val, op: BinaryOpType) -> (r: Result<Ordering>)
    ensures r is Ok ==> ((r->Ok_0 is Less) == (a.k < b.k)) && ((r->Ok_0 is Equal) == (a.k == b.k)) && ((r->Ok_0 is Greater) == (a.k > b.k)),
{ unimplemented!() }

pub assume_specification[ usize::midpoint ](a: usize, b: usize) -> (r: usize)
    ensures r as int == (a as int + b as int) / 2;

/// the set precondition of std.setMember: keys strictly ascending
pub open spec fn is_set(s: Seq<ThunkVal>) -> bool { forall|i: int, j: int| 0 <= i < j < s.len() ==> key_of(s[i]) < key_of(s[j]) }

#[allow(non_snake_case)]
// `gx` is a ghost copy of the argument `x`: the body shadows `x` with its key, and Verus loop invariants can only name
// variables that are in scope inside the loop
pub fn builtin_set_member(x: ThunkVal, arr: ArrValue, keyF: KeyF, Ghost(gx): Ghost<ThunkVal>) -> (r: Result<bool>)
    requires is_set(arr.view()), gx == x,
    ensures r is Ok ==> (r->Ok_0 == (exists|i: int| 0 <= i < arr.view().len() && key_of(arr.view()[i]) == key_of(gx))),
//@body crates/jrsonnet-stdlib/src/sets.rs :: fn builtin_set_member ;; id=set_member
//@sig fn builtin_set_member(x: Thunk<Val>, arr: ArrValue, keyF: KeyF) -> Result<bool>
//@ghost set_member after "let x = keyF.eval(x)?;"
	let ghost s = arr.view();
	let ghost kx = x.k;
	proof { assert(kx == key_of(gx)); }
//@endghost
//@ghost set_member before "match evaluate_compare_op(&comp, &x, BinaryOpType::Lt)? {"
		proof {
			assert(comp.k == key_of(s[middle as int]));
			assert(comp.k == kx ==> (exists|i: int| 0 <= i < arr.view().len() && key_of(arr.view()[i]) == key_of(gx))) by {
				if comp.k == kx { assert(key_of(arr.view()[middle as int]) == key_of(gx)); }
			}
		}
//@endghost
//@ghost set_member loop 1
		invariant
			low <= high <= s.len(), s == arr.view(), is_set(s), kx == x.k, kx == key_of(gx),
			forall|i: int| 0 <= i < low ==> key_of(s[i]) < kx,
			forall|i: int| high <= i < s.len() ==> key_of(s[i]) > kx,
		decreases high - low,
//@endghost
//@ghost set_member before "Ok(false)"
	proof {
		assert(forall|i: int| 0 <= i < s.len() ==> key_of(s[i]) != kx);
	}
//@endghost

} // verus!
fn main() {}
