import os, sys
sys.path.insert(0, os.path.dirname(os.path.dirname(os.path.dirname(os.path.abspath(__file__)))))
import realbin

OPS = ["*", "/", "%", "+", "-", "<<", ">>", "<", ">", "<=", ">=", "&", "|", "^", "==", "!=", "&&", "||", "in"]

def replay(ob, prop):
    w = ob.get("witness_bytes")
    if not w or ob["id"].split("/")[-1] != "h_ir_prefix":
        return None
    bi = int.from_bytes(bytes(w[1]), "little") if len(w) > 1 else 0
    op = OPS[bi] if bi < len(OPS) else "*"
    if op in ("&&", "||", "in"):
        return {"ran": False, "why": "operator not applicable to numbers"}
    # `~5 op 3` must mean `(~5) op 3`
    a = f"~5 {op} 3"
    b = f"(~5) {op} 3"
    ra, rb = realbin.run_jsonnet(a), realbin.run_jsonnet(b)
    confirmed = (ra[0], ra[1]) != (rb[0], rb[1])
    return {"ran": True, "confirmed": confirmed, "input": a,
            "transcript": f"jrsonnet -e '{a}' -> rc={ra[0]} {ra[1].strip()} {ra[2].strip()[:200]}\njrsonnet -e '{b}' -> rc={rb[0]} {rb[1].strip()} {rb[2].strip()[:200]}"}
