// Kani unit prec_tables (C06): binding-power tables of both Pratt parsers against the Jsonnet
// precedence levels -- loop-free over all pairs of operators (finite enums): complete.
#![allow(unused, dead_code)]

//@item crates/jrsonnet-ir/src/expr.rs :: enum BinaryOpType ;; std-derives keep-pub
//@item crates/jrsonnet-ir/src/expr.rs :: enum UnaryOpType ;; std-derives keep-pub
//@item crates/jrsonnet-ir-parser/src/lib.rs :: fn prefix_binding_power
//@item crates/jrsonnet-ir-parser/src/lib.rs :: fn infix_binding_power
//@item crates/jrsonnet-rowan-parser/src/generated/nodes.rs :: enum BinaryOperatorKind ;; std-derives keep-pub
//@item crates/jrsonnet-rowan-parser/src/generated/nodes.rs :: enum UnaryOperatorKind ;; std-derives keep-pub
//@item crates/jrsonnet-rowan-parser/src/precedence.rs :: impl BinaryOperatorKind ;; keep-pub
//@item crates/jrsonnet-rowan-parser/src/precedence.rs :: impl UnaryOperatorKind ;; keep-pub

#[cfg(kani)]
mod harness {
    use super::*;

    // Jsonnet specification, operator precedence (higher = binds tighter); all binary operators left-associative:
    //   * / %  >  + -  >  << >>  >  < > <= >= in  >  == !=  >  &  >  ^  >  |  >  &&  >  ||     and unary + - ! ~ above all of them
    fn level(op: BinaryOpType) -> u8 {
        use BinaryOpType::*;
        match op { Mul | Div | Mod => 10, Add | Sub => 9, Lhs | Rhs => 8, Lt | Gt | Lte | Gte | In => 7, Eq | Neq => 6, BitAnd => 5, BitXor => 4, BitOr => 3, And => 2, Or => 1 }
    }
    const OPS: [BinaryOpType; 20] = { use BinaryOpType::*; [Mul, Div, Mod, Add, Sub, Lhs, Rhs, Lt, Gt, Lte, Gte, BitAnd, BitOr, BitXor, Eq, Neq, And, Or, In, In] };
    fn any_op() -> BinaryOpType { let i: usize = kani::any(); kani::assume(i < 19); OPS[i] }
    fn any_unary() -> UnaryOpType { let i: u8 = kani::any(); kani::assume(i < 4); match i { 0 => UnaryOpType::Plus, 1 => UnaryOpType::Minus, 2 => UnaryOpType::Not, _ => UnaryOpType::BitNot } }
    fn to_rowan(op: BinaryOpType) -> BinaryOperatorKind {
        use BinaryOpType::*; use BinaryOperatorKind as K;
        match op { Mul => K::Mul, Div => K::Div, Mod => K::Modulo, Add => K::Plus, Sub => K::Minus, Lhs => K::Lhs, Rhs => K::Rhs, Lt => K::Lt, Gt => K::Gt, Lte => K::Le, Gte => K::Ge,
                   BitAnd => K::BitAnd, BitOr => K::BitOr, BitXor => K::BitXor, Eq => K::Eq, Neq => K::Ne, And => K::And, Or => K::Or, In => K::InKw }
    }

    /// Pratt loop `if lbp(next) < min_bp { break }` with min_bp = rbp(prev): the next operator is absorbed into the
    /// right operand exactly when it binds strictly tighter  <=>  precedence + left associativity of the grammar.
    #[kani::proof]
    fn h_ir_infix() {
        let (a, b) = (any_op(), any_op());
        let (_la, ra) = infix_binding_power(a);
        let (lb, _rb) = infix_binding_power(b);
        assert!((lb >= ra) == (level(b) > level(a)), "obligation: evaluator parser binds `b` into the right operand of `a` iff b has strictly higher precedence (left-assoc)");
        kani::cover!(level(a) == level(b) && lb < ra);
        kani::cover!(lb >= ra);
    }

    /// unary operators bind tighter than every binary operator: after `~x` no binary operator may be absorbed
    #[kani::proof]
    fn h_ir_prefix() {
        let (u, b) = (any_unary(), any_op());
        let (lb, _) = infix_binding_power(b);
        assert!(lb < prefix_binding_power(u), "obligation: unary operators bind tighter than every binary operator");
        kani::cover!(true);
    }

    #[kani::proof]
    fn h_rowan_infix() {
        let (a, b) = (any_op(), any_op());
        let (_la, ra) = to_rowan(a).binding_power();
        let (lb, _rb) = to_rowan(b).binding_power();
        assert!((lb >= ra) == (level(b) > level(a)), "obligation: syntax-tree parser groups binary operators by the same precedence levels, left-assoc");
        // object application `e { ... }` is postfix: tighter than every binary operator
        let (lo, _) = BinaryOperatorKind::MetaObjectApply.binding_power();
        assert!(lo >= ra, "obligation: object application binds tighter than any binary operator");
        kani::cover!(lb >= ra);
        kani::cover!(level(a) == level(b));
    }

    /// the two tables induce the same grouping for every pair of operators
    #[kani::proof]
    fn h_tables_agree() {
        let (a, b) = (any_op(), any_op());
        let ir = infix_binding_power(b).0 >= infix_binding_power(a).1;
        let rw = to_rowan(b).binding_power().0 >= to_rowan(a).binding_power().1;
        assert!(ir == rw, "obligation: evaluator parser and syntax-tree parser agree on operator grouping");
        kani::cover!(ir);
    }
}
