// Kani unit location (C17): offset_to_location / location_to_offset of jrsonnet-ir -- the line / column mapper behind
// syntax-error, runtime-trace and std.trace positions.  Offsets are BYTE offsets (spans of the parsers).
#![allow(unused, dead_code)]


// ---------------------------------------------------------------- stand-ins (trusted): a fixed-capacity Vec with the std semantics of the
// operations the extracted code uses (collect, sort_by_key [stable insertion sort], reverse, last, pop, push, drain(..), into_iter)
const VCAP: usize = 4;
#[derive(Clone, Copy)]
pub struct Vec<T: Copy + Default> { buf: [T; VCAP], len: usize }
impl<T: Copy + Default> Vec<T> {
    pub fn new() -> Self { Vec { buf: [T::default(); VCAP], len: 0 } }
    pub fn push(&mut self, v: T) { assert!(self.len < VCAP, "stand-in Vec capacity exceeded"); self.buf[self.len] = v; self.len += 1; }
    pub fn pop(&mut self) -> Option<T> { if self.len == 0 { None } else { self.len -= 1; Some(self.buf[self.len]) } }
    pub fn last(&self) -> Option<&T> { if self.len == 0 { None } else { Some(&self.buf[self.len - 1]) } }
    pub fn reverse(&mut self) { let mut i = 0; while i < self.len / 2 { let t = self.buf[i]; self.buf[i] = self.buf[self.len - 1 - i]; self.buf[self.len - 1 - i] = t; i += 1; } }
    pub fn sort_by_key<K: Ord, F: FnMut(&T) -> K>(&mut self, mut f: F) {
        let mut i = 1;
        while i < self.len { let mut j = i; while j > 0 && f(&self.buf[j]) < f(&self.buf[j - 1]) { let t = self.buf[j]; self.buf[j] = self.buf[j - 1]; self.buf[j - 1] = t; j -= 1; } i += 1; }
    }
    pub fn drain(&mut self, _r: std::ops::RangeFull) -> VIter<T> { let it = VIter { v: *self, lo: 0 }; self.len = 0; it }
}
pub struct VIter<T: Copy + Default> { v: Vec<T>, lo: usize }
impl<T: Copy + Default> Iterator for VIter<T> { type Item = T; fn next(&mut self) -> Option<T> { if self.lo < self.v.len { self.lo += 1; Some(self.v.buf[self.lo - 1]) } else { None } } }
impl<T: Copy + Default> IntoIterator for Vec<T> { type Item = T; type IntoIter = VIter<T>; fn into_iter(self) -> VIter<T> { VIter { v: self, lo: 0 } } }
impl<T: Copy + Default> FromIterator<T> for Vec<T> { fn from_iter<I: IntoIterator<Item = T>>(it: I) -> Self { let mut v = Vec::new(); for x in it { v.push(x); } v } }
macro_rules! vec { () => { Vec::new() }; }

// ---------------------------------------------------------------- extracted real code
//@item crates/jrsonnet-ir/src/location.rs :: struct CodeLocation ;; std-derives keep-pub
//@item crates/jrsonnet-ir/src/location.rs :: fn location_to_offset ;; keep-pub
//@item crates/jrsonnet-ir/src/location.rs :: fn offset_to_location ;; keep-pub

#[cfg(kani)]
mod harness {
    use super::*;
    // ---- the specification, written over bytes, independent of the implementation
    fn is_boundary(b: &[u8], o: usize) -> bool { o == b.len() || (o < b.len() && (b[o] & 0xC0) != 0x80) }
    fn spec(b: &[u8], o: usize) -> CodeLocation {
        let mut line = 1; let mut ls = 0; let mut i = 0;
        while i < o { if b[i] == b'\n' { line += 1; ls = i + 1; } i += 1; }
        let mut chars = 0; let mut j = ls;
        while j < o { if (b[j] & 0xC0) != 0x80 { chars += 1; } j += 1; }
        let mut le = o; while le < b.len() && b[le] != b'\n' { le += 1; }
        // column convention of this code base: 1-based column + 1 (print_code_location subtracts it again)
        CodeLocation { offset: o, line, column: chars + 2, line_start_offset: ls, line_end_offset: le }
    }
    fn same(a: &CodeLocation, b: &CodeLocation) -> bool { a.offset == b.offset && a.line == b.line && a.column == b.column && a.line_start_offset == b.line_start_offset && a.line_end_offset == b.line_end_offset }
    fn check2(file: &'static str) {
        let b = file.as_bytes();
        let o1: usize = kani::any(); let o2: usize = kani::any();
        kani::assume(o1 <= b.len() && o2 <= b.len() && o1 != o2 && is_boundary(b, o1) && is_boundary(b, o2));
        let out = offset_to_location(file, &[o1 as u32, o2 as u32]);
        let (s1, s2) = (spec(b, o1), spec(b, o2));
        assert!(out[0].line == s1.line && out[1].line == s2.line, "obligation: the reported line is 1 + the number of newlines before the byte offset, whatever (non-ASCII) text precedes it");
        assert!(out[0].column == s1.column && out[1].column == s2.column, "obligation: the reported column counts the characters between the line start and the offset");
        assert!(same(&out[0], &s1) && same(&out[1], &s2), "obligation: offset, line start and line end are the byte positions of the construct's line");
        kani::cover!(o1 > o2); kani::cover!(o2 == b.len());
    }
    fn check_back(file: &'static str) {
        let b = file.as_bytes();
        let o: usize = kani::any(); kani::assume(o <= b.len());
        let s = spec(b, o);
        // location_to_offset takes a 1-based line and a 1-based BYTE column
        assert!(location_to_offset(file, s.line, o - s.line_start_offset + 1) == Some(o), "obligation: location_to_offset is the inverse of offset_to_location on (line, byte column)");
        kani::cover!(s.line > 1);
    }
    #[kani::proof] #[kani::unwind(12)] fn h_o2l_ascii() { check2("ab\nc\n\nd"); }
    #[kani::proof] #[kani::unwind(12)] fn h_o2l_nonascii_before() { check2("\u{e9}\u{e9}\nx\ny"); }
    #[kani::proof] #[kani::unwind(12)] fn h_o2l_nonascii_online() { check2("a\n\u{20ac}b\nc"); }
    #[kani::proof] #[kani::unwind(12)] fn h_o2l_crlf() { check2("a\r\nb\r\n"); }
    #[kani::proof] #[kani::unwind(18)] fn h_o2l_mixed_long() { check2("\u{e9}\r\n\n\u{20ac}x\ty\n\u{1F600}"); }
    #[kani::proof] #[kani::unwind(12)] fn h_l2o() { check_back("ab\nc\n\nd"); check_back("\u{e9}\n\u{e9}x"); }
}
