// Kani unit lex_wrapper (C17): `impl Iterator for Lexer` of jrsonnet-lexer -- the hand-written layer over the generated
// logos automaton.  Obligation: every lexeme carries exactly the span and the text the automaton reported (so the lexemes
// tile the input iff logos' spans do), error tokens are kept as tokens, and a text block is re-checked over its own text.
#![allow(unused, dead_code, non_camel_case_types, static_mut_refs)]
use core::ops::Range;

// ---------------------------------------------------------------- stand-ins (trusted): logos::Lexer as a scripted automaton
#[derive(Clone, Copy, PartialEq, Eq, Debug)]
pub enum SyntaxKind { IDENT, WHITESPACE, STRING_BLOCK, LEXING_ERROR, ERROR_STRING_BLOCK_UNEXPECTED_END, ERROR_STRING_BLOCK_MISSING_NEW_LINE, ERROR_STRING_BLOCK_MISSING_TERMINATION, ERROR_STRING_BLOCK_MISSING_INDENT }
#[derive(Clone, Copy, PartialEq, Eq, Debug)]
pub struct Span(pub u32, pub u32);
#[derive(Clone, Copy, PartialEq, Eq, Debug)]
pub enum StringBlockError { UnexpectedEnd, MissingNewLine, MissingTermination, MissingIndent }
static mut SUB_SOURCE: (usize, usize) = (0, 0);   // (ptr, len) of the text the nested text-block lexer was created over
static mut SUB_BUMP: usize = 0;
static mut SUB_RESULT: Result<(), StringBlockError> = Ok(());
pub mod logos {
    use super::*;
    pub struct Lexer<'a, T> { pub src: &'a str, pub tok: Option<(Result<T, ()>, usize, usize)>, pub served: bool, pub nested: bool }
    impl<'a> Lexer<'a, SyntaxKind> {
        pub fn new(src: &'a str) -> Self { unsafe { SUB_SOURCE = (src.as_ptr() as usize, src.len()); } Lexer { src, tok: None, served: true, nested: true } }
        pub fn next(&mut self) -> Option<Result<SyntaxKind, ()>> { if self.served { None } else { self.served = true; self.tok.map(|t| t.0) } }
        pub fn slice(&self) -> &'a str { let t = self.tok.unwrap(); &self.src[t.1..t.2] }
        pub fn span(&self) -> Range<usize> { let t = self.tok.unwrap(); t.1..t.2 }
        pub fn bump(&mut self, n: usize) { unsafe { SUB_BUMP = n; } }
    }
}
impl SyntaxKind { pub fn lexer(input: &str) -> logos::Lexer<'_, SyntaxKind> { logos::Lexer { src: input, tok: None, served: false, nested: false } } }
pub fn lex_str_block(lex: &mut logos::Lexer<'_, SyntaxKind>) -> Result<(), StringBlockError> { assert!(lex.nested, "obligation: the text block is re-checked with a fresh lexer, the main one is not advanced"); unsafe { SUB_RESULT } }

// ---------------------------------------------------------------- extracted real code
//@item crates/jrsonnet-lexer/src/lex.rs :: struct Lexer ;; keep-pub
//@item crates/jrsonnet-lexer/src/lex.rs :: impl<'a> Lexer<'a> ;; keep-pub
//@item crates/jrsonnet-lexer/src/lex.rs :: impl<'a> Iterator for Lexer<'a>
//@item crates/jrsonnet-lexer/src/lex.rs :: struct Lexeme ;; std-derives keep-pub

#[cfg(kani)]
mod harness {
    use super::*;
    const SRC: &str = "ab|||cd\u{e9}f";
    fn any_kind() -> Result<SyntaxKind, ()> { match kani::any::<u8>() % 5 { 0 => Ok(SyntaxKind::IDENT), 1 => Ok(SyntaxKind::WHITESPACE), 2 => Ok(SyntaxKind::STRING_BLOCK), 3 => Ok(SyntaxKind::LEXING_ERROR), _ => Err(()) } }
    #[kani::proof]
    #[kani::unwind(12)]
    fn h_next() {
        let mut lx = Lexer::new(SRC);
        let (s, e): (usize, usize) = (kani::any(), kani::any());
        kani::assume(s <= e && e <= SRC.len() && SRC.is_char_boundary(s) && SRC.is_char_boundary(e));
        let k = any_kind();
        let sub: Result<(), StringBlockError> = match kani::any::<u8>() % 5 { 0 => Ok(()), 1 => Err(StringBlockError::UnexpectedEnd), 2 => Err(StringBlockError::MissingNewLine), 3 => Err(StringBlockError::MissingTermination), _ => Err(StringBlockError::MissingIndent) };
        unsafe { SUB_RESULT = sub; SUB_SOURCE = (0, 0); SUB_BUMP = 0; }
        lx.inner.tok = Some((k, s, e));
        let l = match lx.next() { Some(l) => l, None => panic!("obligation: every token of the automaton becomes a lexeme (errors included), nothing is skipped") };
        assert!(l.range == Span(s as u32, e as u32), "obligation: the lexeme's span is the automaton's span (lexemes tile the input)");
        assert!(l.text.as_ptr() == SRC[s..e].as_ptr() && l.text.len() == e - s, "obligation: the lexeme's text is the input slice of its span");
        let want = match k {
            Err(()) => SyntaxKind::LEXING_ERROR,
            Ok(SyntaxKind::STRING_BLOCK) => match sub { Ok(()) => SyntaxKind::STRING_BLOCK, Err(StringBlockError::UnexpectedEnd) => SyntaxKind::ERROR_STRING_BLOCK_UNEXPECTED_END, Err(StringBlockError::MissingNewLine) => SyntaxKind::ERROR_STRING_BLOCK_MISSING_NEW_LINE, Err(StringBlockError::MissingTermination) => SyntaxKind::ERROR_STRING_BLOCK_MISSING_TERMINATION, Err(StringBlockError::MissingIndent) => SyntaxKind::ERROR_STRING_BLOCK_MISSING_INDENT },
            Ok(o) => o,
        };
        assert!(l.kind == want, "obligation: token kind kept; an unlexable piece is LEXING_ERROR; a malformed text block gets its specific error kind");
        if k == Ok(SyntaxKind::STRING_BLOCK) { unsafe { assert!(SUB_SOURCE == (SRC[s..e].as_ptr() as usize, e - s) && SUB_BUMP == 3, "obligation: the text block is re-checked over exactly its own text, after the opening |||"); } }
        assert!(lx.next().is_none(), "obligation: end of the automaton's stream ends the lexeme stream");
        kani::cover!(k == Ok(SyntaxKind::STRING_BLOCK) && sub.is_err()); kani::cover!(k.is_err()); kani::cover!(s == e);
    }
}
