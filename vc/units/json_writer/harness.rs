// Kani unit json_writer (C05, C04): the recursive JSON writer manifest_json_ex_buf, all four formatting modes, on
// objects of two fields whose values are scalars or one-level containers; keys and strings from a hostile table.
#![allow(unused, dead_code)]
use std::borrow::Cow;
use std::fmt::Write;
use std::ptr;
//@include fixed_bytes.rs

// ---------------------------------------------------------------- stand-ins (trusted)
#[derive(Debug, Clone, Copy, PartialEq, Eq)]
pub struct Error;
pub type Result<T, E = Error> = std::result::Result<T, E>;
macro_rules! bail { ($l:literal $(, $($tt:tt)*)?) => { return Err(Error) }; }
pub trait ResultExt: Sized { fn with_description<O>(self, _msg: impl FnOnce() -> O) -> Self { self } }
impl<T> ResultExt for Result<T> {}
pub fn in_description_frame<T, O>(_d: impl FnOnce() -> O, f: impl FnOnce() -> Result<T>) -> Result<T> { f() }
/// strings the writer has to escape: (raw text, its RFC 8259 form written by hand)
pub const STRS: [(&str, &str); 4] = [("k", "\"k\""), ("a\"b", "\"a\\\"b\""), ("c\\d", "\"c\\\\d\""), ("e\n", "\"e\\n\"")];
#[derive(Debug, Clone, Copy, PartialEq, Eq)]
pub struct IStr(pub u8);
impl std::ops::Deref for IStr { type Target = str; fn deref(&self) -> &str { STRS[self.0 as usize].0 } }
impl std::fmt::Display for IStr { fn fmt(&self, f: &mut std::fmt::Formatter<'_>) -> std::fmt::Result { Ok(()) } }
#[derive(Debug, Clone, Copy, PartialEq, Eq)]
pub struct StrValue(pub u8);
impl StrValue { pub fn into_flat(self) -> IStr { IStr(self.0) } }
#[derive(Debug, Clone, Copy, PartialEq, Eq)]
pub struct NumValue(pub u8);   // 7 or 42
impl std::fmt::Display for NumValue { fn fmt(&self, f: &mut std::fmt::Formatter<'_>) -> std::fmt::Result { f.write_str(if self.0 == 7 { "7" } else { "42" }) } }
/// cell codes: 0 null 1 true 2 false 3 num7 4 num42 5..8 string STRS[c-5] 9 empty array 10 array[cell] 11 empty object 12 object{key:cell} 13 function
fn cell(c: u8, sub: u8, subkey: u8) -> Val {
    match c { 0 => Val::Null, 1 => Val::Bool(true), 2 => Val::Bool(false), 3 => Val::Num(NumValue(7)), 4 => Val::Num(NumValue(42)), 5..=8 => Val::Str(StrValue(c - 5)),
              9 => Val::Arr(ArrValue { n: 0, c: 0 }), 10 => Val::Arr(ArrValue { n: 1, c: sub }), 11 => Val::Obj(ObjValue { n: 0, keys: [0; 2], cells: [0; 2], subs: [0; 2], subkeys: [0; 2] }),
              12 => Val::Obj(ObjValue { n: 1, keys: [subkey, 0], cells: [sub, 0], subs: [0; 2], subkeys: [0; 2] }), _ => Val::Func(()) }
}
#[derive(Debug, Clone, Copy, PartialEq, Eq)]
pub struct ArrValue { pub n: usize, pub c: u8 }
pub struct AIter { a: ArrValue, i: usize }
impl Iterator for AIter { type Item = Result<Val>; fn next(&mut self) -> Option<Result<Val>> { if self.i < self.a.n { self.i += 1; Some(Ok(cell(self.a.c, 0, 0))) } else { None } } }
impl ArrValue { pub fn iter(&self) -> AIter { AIter { a: *self, i: 0 } } }
/// object stand-in: `iter()` yields the VISIBLE fields in ascending key order (contract of ObjValue::iter / fields_ex)
#[derive(Debug, Clone, Copy, PartialEq, Eq)]
pub struct ObjValue { pub n: usize, pub keys: [u8; 2], pub cells: [u8; 2], pub subs: [u8; 2], pub subkeys: [u8; 2] }
pub struct OIter { o: ObjValue, i: usize }
impl Iterator for OIter { type Item = (IStr, Result<Val>); fn next(&mut self) -> Option<Self::Item> { if self.i < self.o.n { let i = self.i; self.i += 1; Some((IStr(self.o.keys[i]), Ok(cell(self.o.cells[i], self.o.subs[i], self.o.subkeys[i])))) } else { None } } }
impl ObjValue { pub fn iter(&self) -> OIter { OIter { o: *self, i: 0 } } pub fn run_assertions(&self) -> Result<()> { Ok(()) } }
#[derive(Debug, Clone, Copy, PartialEq, Eq)]
pub enum Val { Bool(bool), Null, Str(StrValue), Num(NumValue), Arr(ArrValue), Obj(ObjValue), Func(()) }

/// contract of the recursive call on an element / field value: appends the JSON text of a (scalar) value, fails on functions
pub fn manifest_json_leaf(val: &Val, buf: &mut String, _pad: &mut String, _o: &JsonFormat<'_>) -> Result<()> {
    match val { Val::Null => buf.push_str("null"), Val::Bool(true) => buf.push_str("true"), Val::Bool(false) => buf.push_str("false"), Val::Num(n) => buf.push_str(if n.0 == 7 { "7" } else { "42" }),
                Val::Str(s) => buf.push_str(STRS[s.0 as usize].1), Val::Func(_) => return Err(Error), _ => panic!("harness: nested containers are not generated") }
    Ok(())
}

// ---------------------------------------------------------------- extracted real code
//@item crates/jrsonnet-evaluator/src/manifest.rs :: const BB
//@item crates/jrsonnet-evaluator/src/manifest.rs :: const TT
//@item crates/jrsonnet-evaluator/src/manifest.rs :: const NN
//@item crates/jrsonnet-evaluator/src/manifest.rs :: const FF
//@item crates/jrsonnet-evaluator/src/manifest.rs :: const RR
//@item crates/jrsonnet-evaluator/src/manifest.rs :: const QU
//@item crates/jrsonnet-evaluator/src/manifest.rs :: const BS
//@item crates/jrsonnet-evaluator/src/manifest.rs :: const UU
//@item crates/jrsonnet-evaluator/src/manifest.rs :: const __
//@item crates/jrsonnet-evaluator/src/manifest.rs :: static ESCAPE
//@item crates/jrsonnet-evaluator/src/manifest.rs :: fn escape_string_json_buf ;; keep-pub
//@item crates/jrsonnet-evaluator/src/manifest.rs :: enum JsonFormatting ;; std-derives
//@item crates/jrsonnet-evaluator/src/manifest.rs :: struct JsonFormat ;; keep-pub
// the two recursive call sites are cut at the callee contract: `|| manifest_json_ex_buf(` -> `|| manifest_json_leaf(`
//@item crates/jrsonnet-evaluator/src/manifest.rs :: fn manifest_json_ex_buf ;; rename=||manifest_json_ex_buf(->||manifest_json_leaf(

#[cfg(kani)]
mod harness {
    use super::*;
    fn put(dst: &mut [u8; 48], n: &mut usize, s: &str) { let b = s.as_bytes(); let mut i = 0; while i < b.len() { dst[*n] = b[i]; *n += 1; i += 1; } }
    fn want_scalar(dst: &mut [u8; 48], n: &mut usize, c: u8) { match c { 0 => put(dst, n, "null"), 1 => put(dst, n, "true"), 2 => put(dst, n, "false"), 3 => put(dst, n, "7"), 4 => put(dst, n, "42"), _ => put(dst, n, STRS[(c - 5) as usize].1) } }
    /// drop insignificant whitespace (only space and newline are allowed there) outside string tokens
    fn strip(src: &[u8], dst: &mut [u8; 48]) -> Option<usize> {
        let mut n = 0; let mut i = 0; let mut instr = false;
        while i < src.len() {
            let c = src[i];
            if instr { dst[n] = c; n += 1; if c == b'\\' { i += 1; if i >= src.len() { return None; } dst[n] = src[i]; n += 1; } else if c == b'"' { instr = false; } else if c < 0x20 { return None; } }
            else if c == b' ' || c == b'\n' {} else if c < 0x20 { return None; } else { if c == b'"' { instr = true; } dst[n] = c; n += 1; }
            i += 1;
        }
        if instr { None } else { Some(n) }
    }
    fn opts(mtype: JsonFormatting) -> JsonFormat<'static> {
        let (padding, sep) = match mtype { JsonFormatting::Minify => ("", ":"), JsonFormatting::ToString => ("", ": "), _ => ("  ", ": ") };
        JsonFormat { padding: Cow::Borrowed(padding), mtype, newline: "\n", key_val_sep: sep, debug_truncate_strings: None }
    }
    fn compare(buf: &String, want: &[u8; 48], wn: usize) {
        let mut got = [0u8; 48];
        let gn = strip(buf.as_bytes(), &mut got);
        assert!(gn == Some(wn), "obligation: output is well-formed JSON of the same structure (modulo insignificant whitespace)");
        let mut k = 0; while k < wn { assert!(got[k] == want[k], "obligation: keys in ascending order, strings escaped, values in place"); k += 1; }
    }
    /// a listed set of concrete shapes (symbolic keys/leaves did not finish in 10 min: the formatting machinery dominates);
    /// CBMC executes each call with constant data
    const OBJS: [(usize, [u8; 2], [u8; 2]); 4] = [(0, [0, 0], [0, 0]), (1, [1, 0], [5, 0]), (2, [0, 2], [3, 7]), (2, [1, 3], [0, 8])];
    fn check_mode(mtype: JsonFormatting) {
        let o = opts(mtype);
        let mut t = 0;
        while t < 4 {
            let (n, keys, cells) = OBJS[t];
            let obj = ObjValue { n, keys, cells, subs: [0; 2], subkeys: [0; 2] };
            let mut buf = String::new(); let mut pad = String::new();
            assert!(manifest_json_ex_buf(&Val::Obj(obj), &mut buf, &mut pad, &o).is_ok(), "obligation: a function-free object manifests");
            assert!(pad.len() == 0, "obligation: indentation state is restored");
            let mut want = [0u8; 48]; let mut wn = 0;
            put(&mut want, &mut wn, "{");
            let mut i = 0; while i < n { if i > 0 { put(&mut want, &mut wn, ","); } put(&mut want, &mut wn, STRS[keys[i] as usize].1); put(&mut want, &mut wn, ":"); want_scalar(&mut want, &mut wn, cells[i]); i += 1; }
            put(&mut want, &mut wn, "}");
            compare(&buf, &want, wn);
            t += 1;
        }
        let bad = ObjValue { n: 1, keys: [0, 0], cells: [13, 0], subs: [0; 2], subkeys: [0; 2] };
        let mut b2 = String::new(); let mut p2 = String::new();
        assert!(manifest_json_ex_buf(&Val::Obj(bad), &mut b2, &mut p2, &o).is_err(), "obligation: a value containing a function is rejected");
        // arrays: empty and one element
        let mut n = 0;
        while n <= 1 {
            let mut buf = String::new(); let mut pad = String::new();
            assert!(manifest_json_ex_buf(&Val::Arr(ArrValue { n, c: 6 }), &mut buf, &mut pad, &o).is_ok() && pad.len() == 0, "obligation: arrays manifest and restore the indentation state");
            let mut want = [0u8; 48]; let mut wn = 0;
            put(&mut want, &mut wn, "["); if n == 1 { want_scalar(&mut want, &mut wn, 6); } put(&mut want, &mut wn, "]");
            compare(&buf, &want, wn);
            n += 1;
        }
        // every scalar at top level: exact text
        let mut c = 0u8;
        while c < 9 {
            let mut b = String::new(); let mut p = String::new();
            assert!(manifest_json_ex_buf(&cell(c, 0, 0), &mut b, &mut p, &o).is_ok(), "obligation: scalars manifest");
            let mut w = [0u8; 48]; let mut wn = 0; want_scalar(&mut w, &mut wn, c);
            assert!(b.len() == wn, "obligation: scalar text is exact");
            let mut k = 0; while k < wn { assert!(b.as_bytes()[k] == w[k], "obligation: scalar text is exact"); k += 1; }
            c += 1;
        }
        let mut b3 = String::new(); let mut p3 = String::new();
        assert!(manifest_json_ex_buf(&Val::Func(()), &mut b3, &mut p3, &o).is_err(), "obligation: a function is rejected");
        kani::cover!(true);
    }
    #[kani::proof]
    #[kani::unwind(50)]
    fn h_writer_minify() { check_mode(JsonFormatting::Minify); }
    #[kani::proof]
    #[kani::unwind(50)]
    fn h_writer_manifest() { check_mode(JsonFormatting::Manifest); }
    #[kani::proof]
    #[kani::unwind(50)]
    fn h_writer_std() { check_mode(JsonFormatting::Std); }
    #[kani::proof]
    #[kani::unwind(50)]
    fn h_writer_tostring() { check_mode(JsonFormatting::ToString); }
}
