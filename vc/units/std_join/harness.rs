// Kani unit std_join (C10, C04): std.join with an array separator (the string branch shares the `first` bookkeeping
// but goes through fmt::Write and is not covered).
#![allow(unused, dead_code)]
//@include fixed_string.rs

// ---------------------------------------------------------------- stand-ins (trusted)
#[derive(Debug, Clone, Copy, PartialEq, Eq)]
pub struct IStr(pub &'static str);
impl std::ops::Deref for IStr { type Target = str; fn deref(&self) -> &str { self.0 } }
impl std::fmt::Display for IStr { fn fmt(&self, f: &mut std::fmt::Formatter<'_>) -> std::fmt::Result { Ok(()) } }
/// non-recursive array stand-in: level 0 = array of (array | null | number) elements, level 1 = array of numbers
#[derive(Debug, Clone, Copy, PartialEq, Eq)]
pub struct ArrValue { pub level: u8, pub kinds: [u8; 3], pub n: usize, pub inner: [[u8; 2]; 3], pub inner_n: [usize; 3], pub flat: [u8; 8], pub flat_n: usize }
pub struct ArrIter { a: ArrValue, i: usize }
impl Iterator for ArrIter {
    type Item = Result<Val>;
    fn next(&mut self) -> Option<Result<Val>> {
        let a = &self.a;
        if a.level == 1 { if self.i < a.flat_n { self.i += 1; return Some(Ok(Val::Num(a.flat[self.i - 1]))); } return None; }
        if self.i >= a.n { return None; }
        let i = self.i; self.i += 1;
        Some(Ok(match a.kinds[i] {
            0 => { let mut flat = [0u8; 8]; flat[0] = a.inner[i][0]; flat[1] = a.inner[i][1]; Val::Arr(ArrValue { level: 1, kinds: [0; 3], n: 0, inner: [[0; 2]; 3], inner_n: [0; 3], flat, flat_n: a.inner_n[i] }) }
            1 => Val::Null,
            _ => Val::Num(200),
        }))
    }
}
impl ArrValue { pub fn iter(&self) -> ArrIter { ArrIter { a: *self, i: 0 } } pub fn len(&self) -> usize { if self.level == 1 { self.flat_n } else { self.n } } }
impl From<Vec<Val>> for ArrValue {
    fn from(v: Vec<Val>) -> Self { let mut flat = [0u8; 8]; let mut i = 0; while i < v.len { if let Some(Val::Num(x)) = v.buf[i] { flat[i] = x; } i += 1; } ArrValue { level: 1, kinds: [0; 3], n: 0, inner: [[0; 2]; 3], inner_n: [0; 3], flat, flat_n: v.len } }
}
#[derive(Debug, Clone, Copy, PartialEq, Eq)]
pub enum Val { Null, Num(u8), Arr(ArrValue), Str(IStr) }
#[derive(Debug, Clone, Copy, PartialEq, Eq)]
pub enum IndexableVal { Str(IStr), Arr(ArrValue) }
impl From<String> for IStr { fn from(_s: String) -> Self { IStr("") } }
#[derive(Debug, Clone, Copy, PartialEq, Eq)]
pub struct Error;
impl From<&'static str> for Error { fn from(_: &'static str) -> Self { Error } }
pub type Result<T> = std::result::Result<T, Error>;
macro_rules! bail { ($l:literal) => { return Err(Error) }; }
macro_rules! write { ($dst:expr, $($arg:tt)*) => { { let _ = &$dst; std::result::Result::<(), ()>::Ok(()) } }; }

// ---------------------------------------------------------------- extracted real code
//@item crates/jrsonnet-stdlib/src/arrays.rs :: fn builtin_join ;; keep-pub

#[cfg(kani)]
mod harness {
    use super::*;
    /// std.join(sep, arr) with arrays: the elements that are arrays are concatenated with one copy of `sep` between
    /// every two consecutive ones (also when some of them are empty); nulls are skipped; anything else is an error
    #[kani::proof]
    #[kani::unwind(10)]
    fn h_join_arrays() {
        let kinds: [u8; 3] = kani::any(); kani::assume(kinds[0] < 3 && kinds[1] < 3 && kinds[2] < 3);
        let inner_n: [usize; 3] = kani::any(); kani::assume(inner_n[0] <= 2 && inner_n[1] <= 2 && inner_n[2] <= 2);
        let inner = [[11u8, 12], [21, 22], [31, 32]];
        let arr = ArrValue { level: 0, kinds, n: 3, inner, inner_n, flat: [0; 8], flat_n: 0 };
        let mut sf = [0u8; 8]; sf[0] = 99;
        let sep = ArrValue { level: 1, kinds: [0; 3], n: 0, inner: [[0; 2]; 3], inner_n: [0; 3], flat: sf, flat_n: 1 };
        let r = builtin_join(IndexableVal::Arr(sep), arr);
        let bad = kinds[0] == 2 || kinds[1] == 2 || kinds[2] == 2;
        match r {
            Err(_) => assert!(bad, "obligation: join of arrays and nulls succeeds"),
            Ok(IndexableVal::Arr(out)) => {
                assert!(!bad, "obligation: a non-array, non-null element is an error");
                // reference: walk the elements, emit sep before every array element except the first array element
                let mut want = [0u8; 8]; let mut wn = 0; let mut seen = false; let mut i = 0;
                while i < 3 { if kinds[i] == 0 { if seen { want[wn] = 99; wn += 1; } seen = true; let mut j = 0; while j < inner_n[i] { want[wn] = inner[i][j]; wn += 1; j += 1; } } i += 1; }
                assert!(out.flat_n == wn, "obligation: exactly one separator between consecutive array elements, empty ones included");
                let mut k = 0; while k < wn { assert!(out.flat[k] == want[k], "obligation: elements and separators appear in order"); k += 1; }
            }
            Ok(_) => panic!("obligation: joining arrays yields an array"),
        }
        kani::cover!(!bad && kinds[0] == 0 && inner_n[0] == 0 && kinds[1] == 0);
        kani::cover!(bad);
    }
}
