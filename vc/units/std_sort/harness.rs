// Kani unit std_sort (C10, C04): keyed sort (std.sort / std.set with keyF) and keyed uniq.
#![allow(unused, dead_code, non_snake_case)]
use std::cmp::Ordering;

// ---------------------------------------------------------------- stand-ins (trusted)
pub const CAP: usize = 4;
/// Copy-based fixed-capacity Vec with the std methods sort.rs uses; sort_by / sort_by_key are STABLE insertion sorts
/// (std documents slice::sort_by / sort_by_key as stable)
#[derive(Debug, Clone, Copy)]
pub struct Vec<T> { pub buf: [Option<T>; CAP], pub len: usize }
impl<T: Copy> Vec<T> {
    pub fn new() -> Self { Vec { buf: [None; CAP], len: 0 } }
    pub fn with_capacity(_c: usize) -> Self { Self::new() }
    pub fn push(&mut self, v: T) { assert!(self.len < CAP, "stand-in Vec capacity"); self.buf[self.len] = Some(v); self.len += 1; }
    pub fn len(&self) -> usize { self.len }
    pub fn at(&self, i: usize) -> T { self.buf[i].unwrap() }
    pub fn sort_by(&mut self, mut f: impl FnMut(&T, &T) -> Ordering) {
        let mut i = 1;
        while i < self.len { let mut j = i; while j > 0 && f(self.buf[j - 1].as_ref().unwrap(), self.buf[j].as_ref().unwrap()) == Ordering::Greater { self.buf.swap(j - 1, j); j -= 1; } i += 1; }
    }
    pub fn sort_by_key<K: Ord>(&mut self, mut f: impl FnMut(&T) -> K) { self.sort_by(|a, b| f(a).cmp(&f(b))) }
    /// std documents sort_unstable_by / sort_unstable_by_key as NOT preserving the order of equal elements: the stand-in uses that
    /// freedom (equal elements come out in REVERSE input order), so code that needs stability but calls these fails its obligation
    /// at any length -- the real pdqsort only shows it beyond 20 elements
    pub fn sort_unstable_by(&mut self, mut f: impl FnMut(&T, &T) -> Ordering) {
        let mut i = 1;
        while i < self.len { let mut j = i; while j > 0 && f(self.buf[j - 1].as_ref().unwrap(), self.buf[j].as_ref().unwrap()) != Ordering::Less { self.buf.swap(j - 1, j); j -= 1; } i += 1; }
    }
    pub fn sort_unstable_by_key<K: Ord>(&mut self, mut f: impl FnMut(&T) -> K) { self.sort_unstable_by(|a, b| f(a).cmp(&f(b))) }
    pub fn into_iter(self) -> VIter<T> { VIter { v: self, i: 0 } }
}
#[derive(Clone, Copy)]
pub struct VIter<T: Copy> { v: Vec<T>, i: usize }
impl<T: Copy> Iterator for VIter<T> { type Item = T; fn next(&mut self) -> Option<T> { if self.i < self.v.len { self.i += 1; self.v.buf[self.i - 1] } else { None } } }
impl<T: Copy> std::iter::FromIterator<T> for Vec<T> { fn from_iter<I: IntoIterator<Item = T>>(it: I) -> Self { let mut v = Vec::new(); for x in it { v.push(x); } v } }
impl<'a, T> IntoIterator for &'a Vec<T> { type Item = &'a T; type IntoIter = RefIter<'a, T>; fn into_iter(self) -> RefIter<'a, T> { RefIter { v: self, i: 0 } } }
pub struct RefIter<'a, T> { v: &'a Vec<T>, i: usize }
impl<'a, T> Iterator for RefIter<'a, T> { type Item = &'a T; fn next(&mut self) -> Option<&'a T> { if self.i < self.v.len { self.i += 1; self.v.buf[self.i - 1].as_ref() } else { None } } }

#[derive(Debug, Clone, Copy, PartialEq, Eq, PartialOrd, Ord)]
pub struct NumValue(pub u8);
#[derive(Debug, Clone, Copy, PartialEq, Eq, PartialOrd, Ord)]
pub struct StrV(pub u8);
#[derive(Debug, Clone, Copy, PartialEq, Eq)]
pub enum Val { Null, Bool(bool), Num(NumValue), Str(StrV) }
#[derive(Debug, Clone, Copy, PartialEq, Eq)]
pub struct Thunk<T> { pub id: u8, pub key: Val, _p: std::marker::PhantomData<T> }
pub fn th(id: u8, key: Val) -> Thunk<Val> { Thunk { id, key, _p: std::marker::PhantomData } }
#[derive(Debug, Clone, Copy, PartialEq, Eq)]
pub enum ErrorKind { RuntimeError(&'static str), NotComparable }
#[derive(Debug, Clone, Copy, PartialEq, Eq)]
pub struct Error(pub ErrorKind);
impl From<ErrorKind> for Error { fn from(k: ErrorKind) -> Self { Error(k) } }
pub type Result<T> = std::result::Result<T, Error>;
macro_rules! bail { ($l:literal) => { return Err(ErrorKind::RuntimeError($l).into()) }; }
#[derive(Clone, Copy)]
pub enum BinaryOpType { Lt }
/// mirrors evaluate_compare_op: numbers with numbers, strings with strings, anything else is an error
pub fn evaluate_compare_op(a: &Val, b: &Val, _op: BinaryOpType) -> Result<Ordering> {
    match (a, b) { (Val::Num(x), Val::Num(y)) => Ok(x.cmp(y)), (Val::Str(x), Val::Str(y)) => Ok(x.cmp(y)), _ => Err(Error(ErrorKind::NotComparable)) }
}
pub fn equals(a: &Val, b: &Val) -> Result<bool> { Ok(a == b) }
#[derive(Clone, Copy)]
pub struct KeyF;
impl KeyF { pub fn eval(&self, v: Thunk<Val>) -> Result<Val> { Ok(v.key) } }
#[derive(Debug, Clone, Copy)]
pub struct ArrValue { pub items: [Thunk<Val>; 3], pub n: usize }
pub struct LazyIter { a: ArrValue, i: usize }
impl Iterator for LazyIter { type Item = Thunk<Val>; fn next(&mut self) -> Option<Thunk<Val>> { if self.i < self.a.n { self.i += 1; Some(self.a.items[self.i - 1]) } else { None } } }
impl ArrValue {
    pub fn len(&self) -> usize { self.n }
    pub fn iter_lazy(&self) -> LazyIter { LazyIter { a: *self, i: 0 } }
    pub fn get_lazy(&self, i: usize) -> Option<Thunk<Val>> { if i < self.n { Some(self.items[i]) } else { None } }
}

// ---------------------------------------------------------------- extracted real code
//@item crates/jrsonnet-stdlib/src/sort.rs :: enum SortKeyType ;; std-derives
// get_sort_type takes a slice in the real code; the stand-in Vec is passed by reference instead (rename rewrite)
//@item crates/jrsonnet-stdlib/src/sort.rs :: fn get_sort_type ;; rename=&[T]->&Vec<T>
//@item crates/jrsonnet-stdlib/src/sort.rs :: fn sort_keyf
//@item crates/jrsonnet-stdlib/src/sort.rs :: fn uniq_keyf

#[cfg(kani)]
mod harness {
    use super::*;
    fn any_key() -> Val { let k: u8 = kani::any(); kani::assume(k < 6); match k { 0 => Val::Num(NumValue(1)), 1 => Val::Num(NumValue(2)), 2 => Val::Str(StrV(1)), 3 => Val::Str(StrV(2)), 4 => Val::Bool(true), _ => Val::Null } }
    fn kind(v: &Val) -> u8 { match v { Val::Num(_) => 0, Val::Str(_) => 1, _ => 2 } }
    fn le(a: &Val, b: &Val) -> bool { match (a, b) { (Val::Num(x), Val::Num(y)) => x <= y, (Val::Str(x), Val::Str(y)) => x <= y, _ => false } }

    /// std.sort(arr, keyF) on 3 elements: an ordered, STABLE permutation when all keys are numbers or all are
    /// strings; an error (never a silently unsorted result) when keys cannot be ordered
    #[kani::proof]
    #[kani::unwind(6)]
    fn h_sort_keyf() {
        let items = [th(0, any_key()), th(1, any_key()), th(2, any_key())];
        let arr = ArrValue { items, n: 3 };
        let comparable = (kind(&items[0].key) == kind(&items[1].key)) && (kind(&items[1].key) == kind(&items[2].key)) && kind(&items[0].key) < 2;
        match sort_keyf(arr, KeyF) {
            Ok(out) => {
                assert!(comparable, "obligation: sorting keys that cannot be ordered (mixed types, booleans, null) is an error");
                assert!(out.len() == 3, "obligation: sort returns a permutation (same length)");
                let (a, b, c) = (out.at(0), out.at(1), out.at(2));
                assert!(a.id != b.id && b.id != c.id && a.id != c.id && a.id < 3 && b.id < 3 && c.id < 3, "obligation: sort returns a permutation of its input");
                assert!(items[a.id as usize] == a && items[b.id as usize] == b && items[c.id as usize] == c, "obligation: elements are not altered");
                assert!(le(&a.key, &b.key) && le(&b.key, &c.key), "obligation: result is ordered by key");
                assert!((a.key != b.key || a.id < b.id) && (b.key != c.key || b.id < c.id), "obligation: sort is stable (equal keys keep input order)");
            }
            Err(_) => assert!(!comparable, "obligation: sorting comparable keys succeeds"),
        }
        kani::cover!(comparable && items[0].key == items[2].key);
        kani::cover!(!comparable && kind(&items[0].key) == 2 && kind(&items[1].key) == 2);
    }

    /// std.uniq(arr, keyF): drops exactly the elements whose key equals the key of their predecessor
    #[kani::proof]
    #[kani::unwind(6)]
    fn h_uniq_keyf() {
        let items = [th(0, any_key()), th(1, any_key()), th(2, any_key())];
        let out = match uniq_keyf(ArrValue { items, n: 3 }, KeyF) { Ok(o) => o, Err(_) => panic!("obligation: uniq over total keys cannot fail") };
        let keep1 = items[1].key != items[0].key; let keep2 = items[2].key != items[1].key;
        assert!(out.len() == 1 + keep1 as usize + keep2 as usize, "obligation: uniq keeps the first element of every run of equal keys");
        assert!(out.at(0) == items[0]);
        if keep1 { assert!(out.at(1) == items[1]); }
        if keep2 { assert!(out.at(out.len() - 1) == items[2]); }
        kani::cover!(!keep1 && keep2);
    }
}
