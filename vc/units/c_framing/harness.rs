// Kani unit c_framing (C15): libjsonnet's list encodings -- multi_to_raw (file name / content pairs of *_multi) and stream_to_raw
// (documents of *_stream): "a sequence of strings separated by \0, terminated with \0\0" (bindings/c/libjsonnet.h); val_to_multi /
// val_to_stream: which fields / elements of the result are manifested (the VISIBLE fields, as `jrsonnet -m` and the library do).
#![allow(unused, dead_code)]
use std::os::raw::c_char;

// ---------------------------------------------------------------- stand-ins (trusted)
pub type IStr = &'static str;

// ---------------------------------------------------------------- extracted real code
//@item bindings/jsonnet/src/lib.rs :: fn multi_to_raw
//@item bindings/jsonnet/src/lib.rs :: fn stream_to_raw

// ---------------------------------------------------------------- val_to_multi / val_to_stream over a scripted object / array
pub mod shapes {
    pub type IStr = &'static str;
    #[derive(Debug)] pub struct Error;
    pub type Result<T> = core::result::Result<T, Error>;
    macro_rules! bail { ($l:literal) => { return Err(Error) }; }
    pub trait ManifestFormat {}
    pub struct Json; impl ManifestFormat for Json {}
    #[derive(Clone, Copy, Debug, PartialEq)]
    pub enum Val { Num(u8), Func, Obj(ObjValue), Arr(ArrValue) }
    impl Val {
        /// contract of Val::manifest: text of the value; a function cannot be manifested
        pub fn manifest(&self, _f: &dyn ManifestFormat) -> Result<&'static str> { match self { Val::Num(1) => Ok("m1"), Val::Num(2) => Ok("m2"), Val::Num(_) => Ok("m?"), _ => Err(Error) } }
    }
    /// object { a: 1, h:: function, b: 2 }  (h hidden: a helper that cannot be manifested)
    #[derive(Clone, Copy, Debug, PartialEq)] pub struct ObjValue;
    const FIELDS: [(&str, bool, Val); 3] = [("a", true, Val::Num(1)), ("b", true, Val::Num(2)), ("h", false, Val::Func)];
    pub struct FieldIter { i: usize, hidden: bool }
    impl Iterator for FieldIter { type Item = (IStr, Result<Val>); fn next(&mut self) -> Option<Self::Item> { while self.i < 3 { let f = FIELDS[self.i]; self.i += 1; if f.1 || self.hidden { return Some((f.0, Ok(f.2))); } } None } }
    pub struct NameIter { i: usize, hidden: bool }
    impl Iterator for NameIter { type Item = IStr; fn next(&mut self) -> Option<IStr> { while self.i < 3 { let f = FIELDS[self.i]; self.i += 1; if f.1 || self.hidden { return Some(f.0); } } None } }
    impl ObjValue {
        pub fn iter(&self) -> FieldIter { FieldIter { i: 0, hidden: false } }              // visible fields, sorted
        pub fn fields_ex(&self, include_hidden: bool) -> Vec<IStr> { NameIter { i: 0, hidden: include_hidden }.collect() }
        pub fn fields(&self) -> Vec<IStr> { self.fields_ex(false) }
        pub fn len(&self) -> usize { 2 }
        pub fn get(&self, k: IStr) -> Result<Option<Val>> { let mut i = 0; while i < 3 { if FIELDS[i].0.as_ptr() == k.as_ptr() { return Ok(Some(FIELDS[i].2)); } i += 1; } Ok(None) }
        pub fn get_or_bail(&self, k: IStr) -> Result<Val> { match self.get(k)? { Some(v) => Ok(v), None => Err(Error) } }
    }
    /// array [1, 2] or, with `bad`, [1, function]
    #[derive(Clone, Copy, Debug, PartialEq)] pub struct ArrValue { pub bad: bool }
    pub struct ArrIter { i: usize, bad: bool }
    impl Iterator for ArrIter { type Item = Result<Val>; fn next(&mut self) -> Option<Result<Val>> { self.i += 1; match self.i { 1 => Some(Ok(Val::Num(1))), 2 => Some(Ok(if self.bad { Val::Func } else { Val::Num(2) })), _ => None } } }
    impl ArrValue { pub fn iter(&self) -> ArrIter { ArrIter { i: 0, bad: self.bad } } pub fn len(&self) -> usize { 2 } }
//@item bindings/jsonnet/src/lib.rs :: fn val_to_multi ;; keep-pub
//@item bindings/jsonnet/src/lib.rs :: fn val_to_stream ;; keep-pub
    pub fn multi(v: Val) -> Result<Vec<(IStr, IStr)>> { val_to_multi(v, &Json) }
    pub fn stream(v: Val) -> Result<Vec<IStr>> { val_to_stream(v, &Json) }
}

#[cfg(kani)]
mod harness {
    use super::*;
    /// the C caller's view: bytes at p must be exactly `want`
    fn is(p: *const c_char, want: &[u8]) -> bool { let mut i = 0; while i < want.len() { if unsafe { *p.add(i) } as u8 != want[i] { return false; } i += 1; } true }
    #[kani::proof] #[kani::unwind(14)]
    fn h_multi() {
        assert!(is(multi_to_raw(vec![]), b"\0\0"), "obligation: an empty multi result is the bare terminator");
        assert!(is(multi_to_raw(vec![("a", "x")]), b"a\0x\0\0"), "obligation: one file: name NUL content NUL NUL");
        assert!(is(multi_to_raw(vec![("a", "x"), ("bc", "yz")]), b"a\0x\0bc\0yz\0\0"), "obligation: files are name NUL content NUL ... and the list ends with an extra NUL");
        assert!(is(multi_to_raw(vec![("a", ""), ("b", "y")]), b"a\0\0b\0y\0\0"), "obligation: an empty content keeps its separators");
    }
    #[kani::proof] #[kani::unwind(14)]
    fn h_stream() {
        assert!(is(stream_to_raw(vec![]), b"\0\0"), "obligation: an empty stream is the bare terminator");
        assert!(is(stream_to_raw(vec!["x"]), b"x\0\0"), "obligation: one document: text NUL NUL");
        assert!(is(stream_to_raw(vec!["x", "yz", "w"]), b"x\0yz\0w\0\0"), "obligation: documents are separated by NUL and the list ends with NUL NUL");
    }
    #[kani::proof] #[kani::unwind(6)]
    fn h_val_to_multi() {
        use shapes::*;
        match multi(Val::Obj(ObjValue)) {
            Ok(v) => { assert!(v.len() == 2 && v[0] == ("a", "m1") && v[1] == ("b", "m2"), "obligation: the multi result is the manifestation of each VISIBLE field of the top-level object, in field order (hidden helpers are not output files)"); std::mem::forget(v); }
            Err(_) => panic!("obligation: an object whose visible fields manifest is a valid multi result, whatever its hidden fields hold"),
        }
        assert!(multi(Val::Num(1)).is_err() && multi(Val::Arr(ArrValue { bad: false })).is_err(), "obligation: a non-object result is an error for *_multi");
    }
    #[kani::proof] #[kani::unwind(6)]
    fn h_val_to_stream() {
        use shapes::*;
        match stream(Val::Arr(ArrValue { bad: false })) { Ok(v) => { assert!(v.len() == 2 && v[0] == "m1" && v[1] == "m2", "obligation: the stream result is the manifestation of every element, in order"); std::mem::forget(v); } Err(_) => panic!("obligation: an array of manifestable values is a valid stream result") }
        assert!(stream(Val::Arr(ArrValue { bad: true })).is_err(), "obligation: an element that cannot be manifested makes the call fail");
        assert!(stream(Val::Obj(ObjValue)).is_err() && stream(Val::Num(1)).is_err(), "obligation: a non-array result is an error for *_stream");
    }
}
