// Kani unit c_framing (C15): libjsonnet's list encodings -- multi_to_raw (file name / content pairs of *_multi) and stream_to_raw
// (documents of *_stream): "a sequence of strings separated by \0, terminated with \0\0" (bindings/c/libjsonnet.h), and val_to_multi /
// val_to_stream shapes are not under contract here.
#![allow(unused, dead_code)]
use std::os::raw::c_char;

// ---------------------------------------------------------------- stand-ins (trusted)
pub type IStr = &'static str;

// ---------------------------------------------------------------- extracted real code
//@item bindings/jsonnet/src/lib.rs :: fn multi_to_raw
//@item bindings/jsonnet/src/lib.rs :: fn stream_to_raw

#[cfg(kani)]
mod harness {
    use super::*;
    /// the C caller's view: bytes at p must be exactly `want`
    fn is(p: *const c_char, want: &[u8]) -> bool { let mut i = 0; while i < want.len() { if unsafe { *p.add(i) } as u8 != want[i] { return false; } i += 1; } true }
    #[kani::proof] #[kani::unwind(14)]
    fn h_multi() {
        assert!(is(multi_to_raw(vec![]), b"\0\0"), "obligation: an empty multi result is the bare terminator");
        assert!(is(multi_to_raw(vec![("a", "x")]), b"a\0x\0\0"), "obligation: one file: name NUL content NUL NUL");
        assert!(is(multi_to_raw(vec![("a", "x"), ("bc", "yz")]), b"a\0x\0bc\0yz\0\0"), "obligation: files are name NUL content NUL ... and the list ends with an extra NUL");
        assert!(is(multi_to_raw(vec![("a", ""), ("b", "y")]), b"a\0\0b\0y\0\0"), "obligation: an empty content keeps its separators");
    }
    #[kani::proof] #[kani::unwind(14)]
    fn h_stream() {
        assert!(is(stream_to_raw(vec![]), b"\0\0"), "obligation: an empty stream is the bare terminator");
        assert!(is(stream_to_raw(vec!["x"]), b"x\0\0"), "obligation: one document: text NUL NUL");
        assert!(is(stream_to_raw(vec!["x", "yz", "w"]), b"x\0yz\0w\0\0"), "obligation: documents are separated by NUL and the list ends with NUL NUL");
    }
}
