// Kani unit obj_field_cache (C03, C02, C16): ObjValue::get / get_idx -- the per-object field cache in front of the layer walk.
// Contract: a field read through the same object and the same starting layer is computed at most once (value OR error is remembered),
// different names / starting layers do not share an entry, and a re-entrant read of a field that is still being computed is an
// "infinite recursion" error; a field that the object's own assertions read while the first read triggers them is
// still evaluated once (h_assertion_reads_field; this obligation was first written from the code -- "recompute while
// asserting" -- and corrected to the property, see DESIGN 7.3).
#![allow(unused, dead_code, static_mut_refs)]
use std::cell::RefCell;

// ---------------------------------------------------------------- stand-ins (trusted)
#[derive(Debug, Clone, Copy, PartialEq)] pub enum ErrorKind { InfiniteRecursionDetected, Field(u8) }
pub use ErrorKind::*;
#[derive(Debug, Clone, Copy, PartialEq)] pub struct Error(pub ErrorKind);
impl From<ErrorKind> for Error { fn from(e: ErrorKind) -> Self { Error(e) } }
pub type Result<T> = core::result::Result<T, Error>;
macro_rules! bail { ($w:ident) => { return Err($w.into()) }; }
#[derive(Debug, Clone, Copy, PartialEq, Eq)] pub struct IStr(pub u8);
#[derive(Debug, Clone, Copy, PartialEq)] pub struct Val(pub u32);
#[derive(Debug, Clone, Copy, PartialEq, Eq)] pub struct CoreIdx { pub idx: usize }
#[derive(Debug, Clone, Copy)] pub enum CacheValue { Cached(Result<Option<Val>>), Pending }
/// FxHashMap with the std entry API, as an association list
pub struct FxHashMap<K, V> { pub e: [Option<(K, V)>; 4] }
pub enum Entry<'a, K, V> { Occupied(OccupiedEntry<'a, K, V>), Vacant(VacantEntry<'a, K, V>) }
pub struct OccupiedEntry<'a, K, V> { slot: &'a mut Option<(K, V)> }
pub struct VacantEntry<'a, K, V> { slot: &'a mut Option<(K, V)>, key: K }
impl<K: PartialEq + Copy, V: Copy> FxHashMap<K, V> {
    pub fn new() -> Self { FxHashMap { e: [None; 4] } }
    fn pos(&self, k: &K) -> usize { let mut i = 0; while i < 4 { if let Some((kk, _)) = &self.e[i] { if kk == k { return i; } } i += 1; } let mut i = 0; while i < 4 { if self.e[i].is_none() { return i; } i += 1; } panic!("stand-in map capacity exceeded") }
    pub fn entry(&mut self, k: K) -> Entry<'_, K, V> { let i = self.pos(&k); if self.e[i].is_some() { Entry::Occupied(OccupiedEntry { slot: &mut self.e[i] }) } else { Entry::Vacant(VacantEntry { slot: &mut self.e[i], key: k }) } }
    pub fn insert(&mut self, k: K, v: V) -> Option<V> { let i = self.pos(&k); let old = self.e[i].map(|x| x.1); self.e[i] = Some((k, v)); old }
    pub fn remove(&mut self, k: &K) -> Option<V> { let mut i = 0; while i < 4 { if let Some((kk, v)) = self.e[i] { if kk == *k { self.e[i] = None; return Some(v); } } i += 1; } None }
    pub fn get(&self, k: &K) -> Option<&V> { let mut i = 0; while i < 4 { if let Some((kk, v)) = &self.e[i] { if kk == k { return Some(v); } } i += 1; } None }
    pub fn contains_key(&self, k: &K) -> bool { self.get(k).is_some() }
    pub fn count(&self) -> usize { let mut n = 0; let mut i = 0; while i < 4 { if self.e[i].is_some() { n += 1; } i += 1; } n }
}
impl<'a, K, V> OccupiedEntry<'a, K, V> { pub fn get(&self) -> &V { &self.slot.as_ref().unwrap().1 } }
impl<'a, K: Copy, V> VacantEntry<'a, K, V> { pub fn insert(self, v: V) { *self.slot = Some((self.key, v)); } }
pub struct Inner { pub cores: [u8; 3], pub value_cache: RefCell<FxHashMap<(IStr, CoreIdx), CacheValue>> }
pub struct ObjValue(pub &'static Inner);
static mut ASSERTING: bool = false;
fn is_asserting(_o: &ObjValue) -> bool { unsafe { ASSERTING } }
// the layer walk, as a script: counts calls per (key, idx); may re-enter the cache once
static mut CALLS: [[u32; 4]; 2] = [[0; 4]; 2];
static mut REENTER: bool = false;
static mut REENTRANT_RESULT: Option<Result<Option<Val>>> = None;
static mut FAILS: bool = false;
static mut ASSERT_READS: bool = false;   // the object's assertions read field 0 (through self) the first time they run
static mut ASSERT_FAILS: bool = false;
static mut ASSERT_RUNS: u32 = 0;
impl ObjValue {
    /// contract of run_assertions (unit obj_misc): runs the assertions unless they already ran / are running; while they
    /// run, is_asserting is true; the script lets the assertion read field 0 of this same object
    pub fn run_assertions(&self) -> Result<()> {
        unsafe {
            if ASSERTING { return Ok(()); }
            ASSERT_RUNS += 1;
            if ASSERT_READS { ASSERT_READS = false; ASSERTING = true; REENTRANT_RESULT = Some(self.get_idx(IStr(0), CoreIdx { idx: 3 })); ASSERTING = false; }
            if ASSERT_FAILS { Err(Error(ErrorKind::Field(99))) } else { Ok(()) }
        }
    }
    /// contract of get_idx_uncached: assertions first (as the real one does), then one layer walk (counted)
    fn get_idx_uncached(&self, key: IStr, core: CoreIdx) -> Result<Option<Val>> {
        self.run_assertions()?;
        unsafe {
            CALLS[key.0 as usize][core.idx] += 1;
            if REENTER { REENTER = false; REENTRANT_RESULT = Some(self.get_idx(key, core)); }
            if FAILS { Err(Error(ErrorKind::Field(key.0))) } else { Ok(Some(Val(100 * key.0 as u32 + 10 * core.idx as u32 + CALLS[key.0 as usize][core.idx]))) }
        }
    }
}

// ---------------------------------------------------------------- extracted real code
impl ObjValue {
//@item crates/jrsonnet-evaluator/src/obj/mod.rs :: impl ObjValue #* > fn get ;; keep-pub
//@item crates/jrsonnet-evaluator/src/obj/mod.rs :: impl ObjValue #* > fn get_idx
}

#[cfg(kani)]
mod harness {
    use super::*;
    fn obj() -> ObjValue { ObjValue(Box::leak(Box::new(Inner { cores: [0; 3], value_cache: RefCell::new(FxHashMap::new()) }))) }
    #[kani::proof] #[kani::unwind(6)]
    fn h_at_most_once() {
        let fails: bool = kani::any(); unsafe { FAILS = fails; }
        let o = obj();
        let r1 = o.get(IStr(0)); let r2 = o.get(IStr(0)); let r3 = o.get(IStr(0));
        unsafe { assert!(CALLS[0][3] == 1, "obligation: a field read repeatedly through the same object is computed exactly once"); }
        assert!(r1 == r2 && r2 == r3, "obligation: every later read returns the remembered outcome (value or error)");
        assert!(if fails { r1 == Err(Error(ErrorKind::Field(0))) } else { r1 == Ok(Some(Val(31))) }, "obligation: the remembered outcome is the one the layer walk produced, started above the top layer");
        kani::cover!(fails); kani::cover!(!fails);
    }
    #[kani::proof] #[kani::unwind(6)]
    fn h_keys_do_not_alias() {
        let o = obj();
        let a = o.get(IStr(0)); let b = o.get(IStr(1)); let s = o.get_idx(IStr(0), CoreIdx { idx: 1 }); let a2 = o.get(IStr(0)); let s2 = o.get_idx(IStr(0), CoreIdx { idx: 1 });
        unsafe { assert!(CALLS[0][3] == 1 && CALLS[1][3] == 1 && CALLS[0][1] == 1, "obligation: each (field name, starting layer) is computed once, independently of the others"); }
        assert!(a == Ok(Some(Val(31))) && b == Ok(Some(Val(131))) && s == Ok(Some(Val(11))) && a2 == a && s2 == s, "obligation: a super read from a lower layer does not reuse the entry of the full read, nor another field's");
        assert!(o.0.value_cache.borrow().count() == 3, "obligation: one cache entry per (name, starting layer)");
    }
    #[kani::proof] #[kani::unwind(6)]
    fn h_reentrant_read() {
        // the field's own computation reads the field again (no assertion involved): a value that depends on itself
        unsafe { ASSERTING = false; REENTER = true; }
        let o = obj();
        let r = o.get(IStr(0));
        unsafe {
            match REENTRANT_RESULT {
                Some(inner) => assert!(inner == Err(Error(InfiniteRecursionDetected)) && CALLS[0][3] == 1, "obligation: reading a field while it is being computed is reported as infinite recursion, not recomputed"),
                None => panic!("harness: re-entrant read did not happen"),
            }
        }
        let again = o.get(IStr(0));
        assert!(again == r, "obligation: the outcome of the outer computation is what stays cached");
        unsafe { assert!(CALLS[0][3] == 1); }
        kani::cover!(r.is_ok());
    }
    /// C03: `{ assert self.a == 1, a: <expensive> }.a` -- the object's assertions run on the first field read and read the
    /// very field that is being read; the field is still evaluated at most once, and both reads see the same outcome
    #[kani::proof] #[kani::unwind(6)]
    fn h_assertion_reads_field() {
        let fails: bool = kani::any(); let afails: bool = kani::any();
        unsafe { FAILS = fails; ASSERT_READS = true; ASSERT_FAILS = afails; ASSERTING = false; }
        let o = obj();
        let r = o.get(IStr(0));
        let r2 = o.get(IStr(0));
        unsafe {
            assert!(CALLS[0][3] <= 1, "obligation: a field that the object's own assertions also read is still evaluated at most once");
            let inner = match REENTRANT_RESULT { Some(x) => x, None => panic!("harness: the assertion did not read the field") };
            assert!(inner == if fails { Err(Error(ErrorKind::Field(0))) } else { Ok(Some(Val(31))) }, "obligation: the assertion's read sees the field's outcome");
            if afails { assert!(r.is_err(), "obligation: a failing assertion fails the field read") } else { assert!(r == inner, "obligation: the read that triggered the assertions returns the outcome the assertions already saw") }
        }
        assert!(r2 == r, "obligation: later reads return the remembered outcome");
        kani::cover!(fails); kani::cover!(!fails && !afails); kani::cover!(afails);
    }
}
