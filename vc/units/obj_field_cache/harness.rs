// Kani unit obj_field_cache (C03, C02, C16): ObjValue::get / get_idx -- the per-object field cache in front of the layer walk.
// Contract: a field read through the same object and the same starting layer is computed at most once (value OR error is remembered),
// different names / starting layers do not share an entry, and a re-entrant read of a field that is still being computed is an
// "infinite recursion" error unless the object's assertions are running.
#![allow(unused, dead_code, static_mut_refs)]
use std::cell::RefCell;

// ---------------------------------------------------------------- stand-ins (trusted)
#[derive(Debug, Clone, Copy, PartialEq)] pub enum ErrorKind { InfiniteRecursionDetected, Field(u8) }
pub use ErrorKind::*;
#[derive(Debug, Clone, Copy, PartialEq)] pub struct Error(pub ErrorKind);
impl From<ErrorKind> for Error { fn from(e: ErrorKind) -> Self { Error(e) } }
pub type Result<T> = core::result::Result<T, Error>;
macro_rules! bail { ($w:ident) => { return Err($w.into()) }; }
#[derive(Debug, Clone, Copy, PartialEq, Eq)] pub struct IStr(pub u8);
#[derive(Debug, Clone, Copy, PartialEq)] pub struct Val(pub u32);
#[derive(Debug, Clone, Copy, PartialEq, Eq)] pub struct CoreIdx { pub idx: usize }
#[derive(Debug, Clone, Copy)] pub enum CacheValue { Cached(Result<Option<Val>>), Pending }
/// FxHashMap with the std entry API, as an association list
pub struct FxHashMap<K, V> { pub e: [Option<(K, V)>; 4] }
pub enum Entry<'a, K, V> { Occupied(OccupiedEntry<'a, K, V>), Vacant(VacantEntry<'a, K, V>) }
pub struct OccupiedEntry<'a, K, V> { slot: &'a mut Option<(K, V)> }
pub struct VacantEntry<'a, K, V> { slot: &'a mut Option<(K, V)>, key: K }
impl<K: PartialEq + Copy, V: Copy> FxHashMap<K, V> {
    pub fn new() -> Self { FxHashMap { e: [None; 4] } }
    fn pos(&self, k: &K) -> usize { let mut i = 0; while i < 4 { if let Some((kk, _)) = &self.e[i] { if kk == k { return i; } } i += 1; } let mut i = 0; while i < 4 { if self.e[i].is_none() { return i; } i += 1; } panic!("stand-in map capacity exceeded") }
    pub fn entry(&mut self, k: K) -> Entry<'_, K, V> { let i = self.pos(&k); if self.e[i].is_some() { Entry::Occupied(OccupiedEntry { slot: &mut self.e[i] }) } else { Entry::Vacant(VacantEntry { slot: &mut self.e[i], key: k }) } }
    pub fn insert(&mut self, k: K, v: V) -> Option<V> { let i = self.pos(&k); let old = self.e[i].map(|x| x.1); self.e[i] = Some((k, v)); old }
    pub fn remove(&mut self, k: &K) -> Option<V> { let mut i = 0; while i < 4 { if let Some((kk, v)) = self.e[i] { if kk == *k { self.e[i] = None; return Some(v); } } i += 1; } None }
    pub fn get(&self, k: &K) -> Option<&V> { let mut i = 0; while i < 4 { if let Some((kk, v)) = &self.e[i] { if kk == k { return Some(v); } } i += 1; } None }
    pub fn contains_key(&self, k: &K) -> bool { self.get(k).is_some() }
    pub fn count(&self) -> usize { let mut n = 0; let mut i = 0; while i < 4 { if self.e[i].is_some() { n += 1; } i += 1; } n }
}
impl<'a, K, V> OccupiedEntry<'a, K, V> { pub fn get(&self) -> &V { &self.slot.as_ref().unwrap().1 } }
impl<'a, K: Copy, V> VacantEntry<'a, K, V> { pub fn insert(self, v: V) { *self.slot = Some((self.key, v)); } }
pub struct Inner { pub cores: [u8; 3], pub value_cache: RefCell<FxHashMap<(IStr, CoreIdx), CacheValue>> }
pub struct ObjValue(pub &'static Inner);
static mut ASSERTING: bool = false;
fn is_asserting(_o: &ObjValue) -> bool { unsafe { ASSERTING } }
// the layer walk, as a script: counts calls per (key, idx); may re-enter the cache once
static mut CALLS: [[u32; 4]; 2] = [[0; 4]; 2];
static mut REENTER: bool = false;
static mut REENTRANT_RESULT: Option<Result<Option<Val>>> = None;
static mut FAILS: bool = false;
impl ObjValue {
    fn get_idx_uncached(&self, key: IStr, core: CoreIdx) -> Result<Option<Val>> {
        unsafe {
            CALLS[key.0 as usize][core.idx] += 1;
            if REENTER { REENTER = false; REENTRANT_RESULT = Some(self.get_idx(key, core)); }
            if FAILS { Err(Error(ErrorKind::Field(key.0))) } else { Ok(Some(Val(100 * key.0 as u32 + 10 * core.idx as u32 + CALLS[key.0 as usize][core.idx]))) }
        }
    }
}

// ---------------------------------------------------------------- extracted real code
impl ObjValue {
//@item crates/jrsonnet-evaluator/src/obj/mod.rs :: impl ObjValue #* > fn get ;; keep-pub
//@item crates/jrsonnet-evaluator/src/obj/mod.rs :: impl ObjValue #* > fn get_idx
}

#[cfg(kani)]
mod harness {
    use super::*;
    fn obj() -> ObjValue { ObjValue(Box::leak(Box::new(Inner { cores: [0; 3], value_cache: RefCell::new(FxHashMap::new()) }))) }
    #[kani::proof] #[kani::unwind(6)]
    fn h_at_most_once() {
        let fails: bool = kani::any(); unsafe { FAILS = fails; }
        let o = obj();
        let r1 = o.get(IStr(0)); let r2 = o.get(IStr(0)); let r3 = o.get(IStr(0));
        unsafe { assert!(CALLS[0][3] == 1, "obligation: a field read repeatedly through the same object is computed exactly once"); }
        assert!(r1 == r2 && r2 == r3, "obligation: every later read returns the remembered outcome (value or error)");
        assert!(if fails { r1 == Err(Error(ErrorKind::Field(0))) } else { r1 == Ok(Some(Val(31))) }, "obligation: the remembered outcome is the one the layer walk produced, started above the top layer");
        kani::cover!(fails); kani::cover!(!fails);
    }
    #[kani::proof] #[kani::unwind(6)]
    fn h_keys_do_not_alias() {
        let o = obj();
        let a = o.get(IStr(0)); let b = o.get(IStr(1)); let s = o.get_idx(IStr(0), CoreIdx { idx: 1 }); let a2 = o.get(IStr(0)); let s2 = o.get_idx(IStr(0), CoreIdx { idx: 1 });
        unsafe { assert!(CALLS[0][3] == 1 && CALLS[1][3] == 1 && CALLS[0][1] == 1, "obligation: each (field name, starting layer) is computed once, independently of the others"); }
        assert!(a == Ok(Some(Val(31))) && b == Ok(Some(Val(131))) && s == Ok(Some(Val(11))) && a2 == a && s2 == s, "obligation: a super read from a lower layer does not reuse the entry of the full read, nor another field's");
        assert!(o.0.value_cache.borrow().count() == 3, "obligation: one cache entry per (name, starting layer)");
    }
    #[kani::proof] #[kani::unwind(6)]
    fn h_reentrant_read() {
        let asserting: bool = kani::any();
        unsafe { ASSERTING = asserting; REENTER = true; }
        let o = obj();
        let r = o.get(IStr(0));
        unsafe {
            match REENTRANT_RESULT {
                Some(inner) => if asserting { assert!(inner.is_ok() && CALLS[0][3] == 2, "obligation: while the object's assertions run, a re-entrant read recomputes instead of failing") }
                               else { assert!(inner == Err(Error(InfiniteRecursionDetected)) && CALLS[0][3] == 1, "obligation: reading a field while it is being computed is reported as infinite recursion, not recomputed") },
                None => panic!("harness: re-entrant read did not happen"),
            }
        }
        assert!(r.is_ok(), "obligation: the outer read completes");
        let again = o.get(IStr(0));
        assert!(again == r, "obligation: the outcome of the outer computation is what stays cached");
        kani::cover!(asserting); kani::cover!(!asserting);
    }
}
