// Kani unit yaml_stream (C14, C04): YAML stream framing (std.manifestYamlStream, -y): one `---` document per element.
#![allow(unused, dead_code)]
//@include fixed_string.rs

// ---------------------------------------------------------------- stand-ins (trusted)
#[derive(Debug, Clone, Copy, PartialEq, Eq)]
pub struct Error;
pub type Result<T> = std::result::Result<T, Error>;
macro_rules! bail { ($l:literal $(, $($tt:tt)*)?) => { return Err(Error) }; }
pub trait ResultExt: Sized { fn with_description<O>(self, _m: impl FnOnce() -> O) -> Self { self } }
impl<T> ResultExt for Result<T> {}
pub fn in_description_frame<T, O>(_d: impl FnOnce() -> O, f: impl FnOnce() -> Result<T>) -> Result<T> { f() }
#[derive(Debug, Clone, Copy, PartialEq, Eq)]
pub enum ValType { Arr, Other }
impl std::fmt::Display for ValType { fn fmt(&self, _f: &mut std::fmt::Formatter<'_>) -> std::fmt::Result { Ok(()) } }
#[derive(Debug, Clone, Copy, PartialEq, Eq)]
pub struct ArrValue { pub n: usize, pub bad: Option<usize> }          // element `bad` fails to evaluate
pub struct AIter { a: ArrValue, i: usize }
impl Iterator for AIter { type Item = Result<Val>; fn next(&mut self) -> Option<Result<Val>> { if self.i < self.a.n { self.i += 1; Some(if self.a.bad == Some(self.i - 1) { Err(Error) } else { Ok(Val::Doc((self.i - 1) as u8)) }) } else { None } } }
impl ArrValue { pub fn iter(&self) -> AIter { AIter { a: *self, i: 0 } } }
#[derive(Debug, Clone, Copy, PartialEq, Eq)]
pub enum Val { Arr(ArrValue), Doc(u8), Null }
impl Val { pub fn value_type(&self) -> ValType { match self { Val::Arr(_) => ValType::Arr, _ => ValType::Other } } }
pub trait ManifestFormat { fn manifest_buf(&self, val: Val, out: &mut String) -> Result<()>; }
/// inner document writer: document i is the text "d<i>"
pub struct Inner;
impl ManifestFormat for Inner { fn manifest_buf(&self, val: Val, out: &mut String) -> Result<()> { match val { Val::Doc(i) => { out.push('d'); out.push((b'0' + i) as char); Ok(()) } _ => Err(Error) } } }

// ---------------------------------------------------------------- extracted real code
//@item crates/jrsonnet-evaluator/src/manifest.rs :: struct YamlStreamFormat ;; keep-pub
//@item crates/jrsonnet-evaluator/src/manifest.rs :: impl<I> YamlStreamFormat<I> ;; keep-pub
//@item crates/jrsonnet-evaluator/src/manifest.rs :: impl<I: ManifestFormat> ManifestFormat for YamlStreamFormat<I>

#[cfg(kani)]
mod harness {
    use super::*;
    fn expect(out: &String, want: &[u8]) { assert!(out.len() == want.len(), "obligation: exact YAML stream framing"); let mut i = 0; while i < want.len() { assert!(out.as_bytes()[i] == want[i], "obligation: exact YAML stream framing"); i += 1; } }
    /// every element becomes one document introduced by `---`, documents are separated by a newline, the stream ends with the
    /// document-end marker when requested; a non-array value and a failing element are errors
    fn check(n: usize) {
        let cli: bool = kani::any();
        let f = if cli { YamlStreamFormat::cli(Inner) } else { YamlStreamFormat::std_yaml_stream(Inner, kani::any()) };
        let (doc_end, end_nl) = (f.c_document_end, f.end_newline);
        let mut out = String::new();
        assert!(f.manifest_buf(Val::Arr(ArrValue { n, bad: None }), &mut out).is_ok(), "obligation: an array of documents manifests");
        let mut want = [0u8; 32]; let mut wn = 0; let mut i = 0;
        while i < n { if i > 0 { want[wn] = b'\n'; wn += 1; } for c in b"---\n" { want[wn] = *c; wn += 1; } want[wn] = b'd'; want[wn + 1] = b'0' + i as u8; wn += 2; i += 1; }
        if doc_end { for c in b"\n..." { want[wn] = *c; wn += 1; } }
        if end_nl { want[wn] = b'\n'; wn += 1; }
        expect(&out, &want[..wn]);
        let mut o2 = String::new();
        assert!(f.manifest_buf(Val::Null, &mut o2).is_err(), "obligation: a YAML stream needs an array");
        if n > 0 { let mut o3 = String::new(); assert!(f.manifest_buf(Val::Arr(ArrValue { n, bad: Some(n - 1) }), &mut o3).is_err(), "obligation: a failing document fails the stream"); }
        kani::cover!(doc_end);
    }
    #[kani::proof]
    #[kani::unwind(34)]
    fn h_yaml_stream_n0() { check(0); }
    #[kani::proof]
    #[kani::unwind(34)]
    fn h_yaml_stream_n1() { check(1); }
    #[kani::proof]
    #[kani::unwind(34)]
    fn h_yaml_stream_n2() { check(2); }
    #[kani::proof]
    #[kani::unwind(34)]
    fn h_yaml_stream_n3() { check(3); }
}
