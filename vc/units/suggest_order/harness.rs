// Kani unit suggest_order (C16): "did you mean" suggestion lists must not depend on hash-map iteration order.
#![allow(unused, dead_code, static_mut_refs)]
use std::cmp::Ordering;

// ---------------------------------------------------------------- stand-ins (trusted)
#[derive(Debug, Clone, Copy)]
pub struct IStr(pub &'static str);
// names are "k<digit>": content order = digit order (keeps memcmp out of the model)
impl PartialEq for IStr { fn eq(&self, o: &Self) -> bool { self.0.as_bytes()[1] == o.0.as_bytes()[1] } }
impl Eq for IStr {}
impl PartialOrd for IStr { fn partial_cmp(&self, o: &Self) -> Option<Ordering> { Some(self.cmp(o)) } }
impl Ord for IStr { fn cmp(&self, o: &Self) -> Ordering { self.0.as_bytes()[1].cmp(&o.0.as_bytes()[1]) } }
impl std::ops::Deref for IStr { type Target = str; fn deref(&self) -> &str { self.0 } }
impl IStr { pub fn as_str(&self) -> &str { self.0 } }
pub const KEYS: [IStr; 3] = [IStr("k0"), IStr("k1"), IStr("k2")];
static mut SCORES: [f64; 3] = [0.0; 3];
pub mod strsim { pub fn jaro_winkler(a: &str, _b: &str) -> f64 { unsafe { super::SCORES[(a.as_bytes()[1] - b'0') as usize] } } }
#[derive(Debug, Clone, Copy)]
pub struct Thunk<T>(std::marker::PhantomData<T>);
#[derive(Debug, Clone, Copy)]
pub struct Val;
/// fixed-capacity Vec with a STABLE insertion sort (std's sort_by is documented stable)
#[derive(Debug, Clone, Copy, PartialEq)]
pub struct Vec<T: Copy> { pub buf: [Option<T>; 4], pub len: usize }
impl<T: Copy> Vec<T> {
    pub fn new() -> Self { Vec { buf: [None; 4], len: 0 } }
    pub fn push(&mut self, v: T) { assert!(self.len < 4); self.buf[self.len] = Some(v); self.len += 1; }
    pub fn sort_by(&mut self, mut f: impl FnMut(&T, &T) -> Ordering) {
        let mut i = 1;
        while i < self.len { let mut j = i; while j > 0 && f(self.buf[j - 1].as_ref().unwrap(), self.buf[j].as_ref().unwrap()) == Ordering::Greater { self.buf.swap(j - 1, j); j -= 1; } i += 1; }
    }
    pub fn into_iter(self) -> VIter<T> { VIter { v: self, i: 0 } }
}
#[derive(Clone, Copy)]
pub struct VIter<T: Copy> { v: Vec<T>, i: usize }
impl<T: Copy> Iterator for VIter<T> { type Item = T; fn next(&mut self) -> Option<T> { if self.i < self.v.len { self.i += 1; self.v.buf[self.i - 1] } else { None } } }
impl<T: Copy> std::iter::FromIterator<T> for Vec<T> { fn from_iter<I: IntoIterator<Item = T>>(it: I) -> Self { let mut v = Vec::new(); for x in it { v.push(x); } v } }
#[derive(Debug, Clone, Copy, PartialEq)]
pub enum ErrorKind { VariableIsNotDefined(IStr, Vec<IStr>) }
pub use ErrorKind::*;
#[derive(Debug, Clone, Copy, PartialEq)]
pub struct Error(pub ErrorKind);
impl From<ErrorKind> for Error { fn from(k: ErrorKind) -> Self { Error(k) } }
pub type Result<T> = std::result::Result<T, Error>;

#[macro_export]
macro_rules! bail { ($w:ident$(::$i:ident)*$(($($tt:tt)*))?) => { return Err($w$(::$i)*$(($($tt)*))?.into()) }; }
/// bindings map whose iteration order is an arbitrary permutation chosen by the harness (hash order stand-in)
#[derive(Debug, Clone, Copy)]
pub struct Bindings { pub order: [usize; 3] }
impl Bindings {
    pub fn get(&self, _k: &IStr) -> Option<&Thunk<Val>> { None }          // the looked-up name is not bound (error path)
    pub fn iter_keys(self, mut handler: impl FnMut(IStr)) { let mut i = 0; while i < 3 { handler(KEYS[self.order[i]]); i += 1; } }
}
#[derive(Debug, Clone, Copy)]
pub struct ContextInternals { pub bindings: Bindings }
#[derive(Debug, Clone, Copy)]
pub struct Context(pub ContextInternals);



// ---------------------------------------------------------------- extracted real code
impl Context {
//@item crates/jrsonnet-evaluator/src/ctx.rs :: impl Context > fn binding ;; keep-pub
}

#[cfg(kani)]
mod harness {
    use super::*;
    fn any_perm() -> [usize; 3] { let p: u8 = kani::any(); kani::assume(p < 6); match p { 0 => [0, 1, 2], 1 => [0, 2, 1], 2 => [1, 0, 2], 3 => [1, 2, 0], 4 => [2, 0, 1], _ => [2, 1, 0] } }
    fn any_score() -> f64 { let s: u8 = kani::any(); kani::assume(s < 3); match s { 0 => 0.5, 1 => 0.85, _ => 0.95 } }

    /// the error for an unbound variable (name + suggestion list) is the same for every iteration order of the bindings map
    #[kani::proof]
    #[kani::unwind(8)]
    fn h_binding_suggestions() {
        unsafe { SCORES = [any_score(), any_score(), any_score()]; }
        let (p1, p2) = (any_perm(), [0usize, 1, 2]);   // every order against the canonical one (equality is transitive)
        let e1 = Context(ContextInternals { bindings: Bindings { order: p1 } }).binding(IStr("kx"));
        let e2 = Context(ContextInternals { bindings: Bindings { order: p2 } }).binding(IStr("kx"));
        match (e1, e2) {
            (Err(a), Err(b)) => assert!(a == b, "obligation: suggestions in error messages never depend on hash-table iteration order"),
            _ => panic!("obligation: an unbound variable is an error"),
        }
        kani::cover!((p1[0] != p2[0] || p1[1] != p2[1]) && unsafe { SCORES[0] == SCORES[1] && SCORES[0] > 0.8 });
    }
}
