// Kani unit cli_main (C15): main_real of cmds/jrsonnet -- the order in which the executable wires options into one evaluation:
// resolver and ext-vars into the state, the state ENTERED before anything is evaluated (nested imports / ext code need it), the input
// evaluated (snippet with -e, import otherwise, resolved ignoring -J), top-level arguments applied exactly once to the result --
// also when no --tla option is given, because that call is what invokes a top-level function --, then the selected manifest format
// applied and the text sent to stdout (-S/-y via the format), to -o FILE, or per field with -m DIR.
#![allow(unused, dead_code, static_mut_refs, unused_macros)]
use std::io::Read;

// ---------------------------------------------------------------- stand-ins (trusted): every collaborator logs what it is asked to do
#[derive(Clone, Copy, PartialEq, Debug)]
pub enum Ev { Resolver, ExtVars, Build, Enter, EvalSnippet, ImportInput, TlaOpts, ApplyTla(u8), Format, Manifest(u8), Print, MkDir, Create(u8), Write, Newline, Flush, None }
static mut LOG: [Ev; 24] = [Ev::None; 24];
static mut NLOG: usize = 0;
fn log(e: Ev) { unsafe { if NLOG < 24 { LOG[NLOG] = e; } NLOG += 1; } }
static mut EVAL_FAILS: bool = false;
static mut OUTPUT_EMPTY: bool = false;
static mut TRAILING_NL: bool = true;
pub struct Guard;
pub struct GcOpts; impl GcOpts { pub fn leak_on_exit(&self) -> Option<Guard> { None } pub fn stats_printer(&self) -> Option<Guard> { None } }
pub struct Resolver; pub struct CtxInit;
pub struct MiscOpts; impl MiscOpts { pub fn stack_size_override(&self) -> Guard { Guard } pub fn import_resolver(&self) -> Resolver { log(Ev::Resolver); Resolver } }
pub struct StdOpts; impl StdOpts { pub fn context_initializer(&self) -> Result<Option<CtxInit>, JrError> { log(Ev::ExtVars); Ok(Some(CtxInit)) } }
/// the (here: empty) map of top-level arguments
pub struct TlaMap;
impl TlaMap { pub fn is_empty(&self) -> bool { true } pub fn len(&self) -> usize { 0 } }
pub struct TlaOpts; impl TlaOpts { pub fn tla_opts(&self) -> Result<TlaMap, JrError> { log(Ev::TlaOpts); Ok(TlaMap) } }
pub struct TraceOpts; pub struct SubOpts;
#[derive(Debug)] pub struct JrError;
#[derive(Debug)] pub enum ErrorKind { RuntimeError }
impl From<ErrorKind> for JrError { fn from(_e: ErrorKind) -> Self { JrError } }
macro_rules! bail { ($($t:tt)*) => { return Err(JrError.into()) }; }
pub struct Fmt;
impl Fmt { pub fn file_trailing_newline(&self) -> bool { unsafe { TRAILING_NL } } }
pub trait FmtLike {} impl FmtLike for Fmt {} impl FmtLike for &Fmt {}
pub struct ManifestOpts; impl ManifestOpts { pub fn manifest_format(&self) -> Fmt { log(Ev::Format); Fmt } }
/// text produced by manifestation (only emptiness matters here)
pub struct Text { empty: bool }
impl Text { pub fn is_empty(&self) -> bool { self.empty } }
impl std::fmt::Display for Text { fn fmt(&self, _f: &mut std::fmt::Formatter<'_>) -> std::fmt::Result { Ok(()) } }
#[derive(Clone, Copy, PartialEq, Debug)] pub enum ValType { Other }
impl std::fmt::Display for ValType { fn fmt(&self, _f: &mut std::fmt::Formatter<'_>) -> std::fmt::Result { Ok(()) } }
#[derive(Clone, Copy, PartialEq, Debug)] pub struct ObjValue;
#[derive(Clone, Copy, PartialEq, Debug)] pub enum Val { Raw(u8), Applied(u8), Obj(ObjValue) }
impl Val {
    pub fn manifest<F: FmtLike>(&self, _f: F) -> Result<Text, JrError> { match self { Val::Applied(v) => { log(Ev::Manifest(*v)); Ok(Text { empty: unsafe { OUTPUT_EMPTY } }) } Val::Raw(_) => panic!("obligation: the value that is manifested is the one top-level arguments were applied to"), Val::Obj(_) => { log(Ev::Manifest(0)); Ok(Text { empty: false }) } } }
    pub fn value_type(&self) -> ValType { ValType::Other }
}
#[derive(Clone, Copy)] pub struct FieldName(pub &'static str);
impl std::ops::Deref for FieldName { type Target = str; fn deref(&self) -> &str { self.0 } }
impl std::fmt::Display for FieldName { fn fmt(&self, _f: &mut std::fmt::Formatter<'_>) -> std::fmt::Result { Ok(()) } }
pub struct ObjIter { i: u8 }
impl Iterator for ObjIter { type Item = (FieldName, Result<Val, JrError>); fn next(&mut self) -> Option<Self::Item> { self.i += 1; match self.i { 1 => Some((FieldName("a.json"), Ok(Val::Applied(1)))), 2 => Some((FieldName("b.json"), Ok(Val::Applied(2)))), _ => None } } }
impl ObjValue { pub fn iter(&self) -> ObjIter { ObjIter { i: 0 } } }
pub trait ResultExt: Sized { fn with_description<F: FnOnce() -> String>(self, _f: F) -> Self { self } }
impl<T> ResultExt for Result<T, JrError> {}
/// top-level argument application (contract of evaluator::apply_tla): a function is called with the arguments, any other value passes through
pub fn apply_tla(_args: &TlaMap, val: Val) -> Result<Val, JrError> { match val { Val::Raw(v) => { log(Ev::ApplyTla(v)); Ok(if v == 9 { Val::Obj(ObjValue) } else { Val::Applied(v) }) } _ => panic!("obligation: top-level arguments are applied once, to the evaluation result") } }
pub struct StateGuard;
pub struct State;
pub struct StateBuilder;
impl State {
    pub fn builder() -> StateBuilder { StateBuilder }
    pub fn enter(&self) -> StateGuard { log(Ev::Enter); StateGuard }
    pub fn evaluate_snippet(&self, _name: String, _code: &str) -> Result<Val, JrError> { log(Ev::EvalSnippet); unsafe { if EVAL_FAILS { Err(JrError) } else { Ok(Val::Raw(RESULT)) } } }
    pub fn import_from(&self, from: &SourcePath, _p: &str) -> Result<Val, JrError> { assert!(from.0 == 1, "obligation: the input file is resolved as the command-line input (current directory, library path ignored)"); log(Ev::ImportInput); unsafe { if EVAL_FAILS { Err(JrError) } else { Ok(Val::Raw(RESULT)) } } }
}
static mut RESULT: u8 = 5;
impl StateBuilder { pub fn import_resolver(&mut self, _r: Resolver) -> &mut Self { self } pub fn context_initializer(&mut self, _c: Option<CtxInit>) -> &mut Self { self } pub fn build(self) -> State { log(Ev::Build); State } }
pub struct SourceDefaultIgnoreJpath;
pub struct SourcePath(pub u8);
impl SourcePath { pub fn new(_s: SourceDefaultIgnoreJpath) -> Self { SourcePath(1) } }
#[derive(Clone, Copy)] pub struct PathBuf(pub u8);
impl PathBuf { pub fn pop(&mut self) -> bool { true } pub fn push(&mut self, f: &str) { self.0 = if f.as_bytes()[0] == b'a' { 1 } else { 2 }; } pub fn to_str(&self) -> Option<&str> { Some("p") } }
pub struct IoError; pub struct Utf8Error;
pub fn create_dir_all(_p: PathBuf) -> Result<(), IoError> { log(Ev::MkDir); Ok(()) }
pub struct File;
impl File {
    pub fn create(p: PathBuf) -> Result<File, IoError> { log(Ev::Create(p.0)); Ok(File) }
    /// write!(file, "{}", text) / writeln!(file) / writeln!(file, "{}", text): one pattern piece and no argument = the bare newline
    pub fn write_fmt(&mut self, a: std::fmt::Arguments<'_>) -> Result<(), IoError> { match a.as_str() { Some("\n") => log(Ev::Newline), _ => log(Ev::Write) } Ok(()) }
    pub fn flush(&mut self) -> Result<(), IoError> { log(Ev::Flush); Ok(()) }
}
impl From<IoError> for Error { fn from(_e: IoError) -> Self { Error::Io } }
impl From<Utf8Error> for Error { fn from(_e: Utf8Error) -> Self { Error::Utf8 } }
impl From<std::io::Error> for Error { fn from(_e: std::io::Error) -> Self { Error::Io } }
impl From<std::str::Utf8Error> for Error { fn from(_e: std::str::Utf8Error) -> Self { Error::Utf8 } }
macro_rules! println { ($($t:tt)*) => { log(Ev::Print) }; }
macro_rules! eprintln { ($($t:tt)*) => { () }; }
pub struct OutputOpts { pub output_file: Option<PathBuf>, pub create_output_dirs: bool, pub multi: Option<PathBuf> }
pub struct DebugOpts { pub os_stack: Option<usize> }
/// same variants as main.rs `Error` (its thiserror derive is not reproduced)
pub enum Error { Evaluation(JrError), Io, Utf8, MissingInputArgument }
mod std_io_standin { }

// ---------------------------------------------------------------- extracted real code
//@item cmds/jrsonnet/src/main.rs :: struct InputOpts ;; keep-pub
//@item cmds/jrsonnet/src/main.rs :: struct Opts ;; keep-pub
//@item cmds/jrsonnet/src/main.rs :: impl From<JrError> for Error
//@item cmds/jrsonnet/src/main.rs :: impl From<ErrorKind> for Error
//@item cmds/jrsonnet/src/main.rs :: fn main_real

#[cfg(kani)]
mod harness {
    use super::*;
    fn opts(exec: bool, output: OutputOpts) -> Opts {
        Opts { sub: None, version: false, input: InputOpts { exec, input: Some(String::from("in")) }, misc: MiscOpts, tla: TlaOpts, std: StdOpts, gc: GcOpts, trace: TraceOpts, manifest: ManifestOpts, output, debug: DebugOpts { os_stack: None } }
    }
    fn pos(e: Ev) -> usize { unsafe { let mut i = 0; while i < NLOG && i < 24 { if LOG[i] == e { return i; } i += 1; } 99 } }
    fn count(e: Ev) -> usize { unsafe { let mut n = 0; let mut i = 0; while i < NLOG && i < 24 { if LOG[i] == e { n += 1; } i += 1; } n } }
    #[kani::proof] #[kani::unwind(26)]
    fn h_stdout() {
        let exec: bool = kani::any(); let empty: bool = kani::any();
        unsafe { OUTPUT_EMPTY = empty; }
        let r = main_real(opts(exec, OutputOpts { output_file: None, create_output_dirs: false, multi: None }));
        assert!(r.is_ok(), "obligation: a successful evaluation is a successful run");
        let eval = if exec { pos(Ev::EvalSnippet) } else { pos(Ev::ImportInput) };
        assert!(eval != 99 && count(Ev::EvalSnippet) + count(Ev::ImportInput) == 1, "obligation: -e evaluates the argument as code, otherwise the argument is imported as a file; exactly one of the two");
        assert!(pos(Ev::Resolver) < pos(Ev::Build) && pos(Ev::ExtVars) < pos(Ev::Build) && pos(Ev::Build) < pos(Ev::Enter) && pos(Ev::Enter) < eval, "obligation: the state is built from the options and ENTERED before the input is evaluated");
        assert!(count(Ev::ApplyTla(5)) == 1 && pos(Ev::ApplyTla(5)) > eval && pos(Ev::TlaOpts) < pos(Ev::ApplyTla(5)), "obligation: top-level arguments are applied exactly once to the evaluation result, also when none were given");
        assert!(count(Ev::Manifest(5)) == 1 && pos(Ev::Manifest(5)) > pos(Ev::ApplyTla(5)) && pos(Ev::Format) < pos(Ev::Manifest(5)), "obligation: the TLA-applied value is manifested with the selected format");
        assert!(count(Ev::Print) == if empty { 0 } else { 1 } && count(Ev::Create(0)) + count(Ev::Create(1)) + count(Ev::Create(2)) == 0, "obligation: the text goes to stdout (nothing is printed for an empty result) and no file is created");
        kani::cover!(exec && empty); kani::cover!(!exec && !empty);
    }
    #[kani::proof] #[kani::unwind(26)]
    fn h_output_file_and_errors() {
        let mkdirs: bool = kani::any();
        let r = main_real(opts(true, OutputOpts { output_file: Some(PathBuf(7)), create_output_dirs: mkdirs, multi: None }));
        assert!(r.is_ok() && count(Ev::Create(7)) == 1 && count(Ev::Write) == 1 && count(Ev::Print) == 0 && count(Ev::MkDir) == if mkdirs { 1 } else { 0 } && (!mkdirs || pos(Ev::MkDir) < pos(Ev::Create(7))), "obligation: -o writes the manifestation to that file (creating directories first with -c) and prints nothing");
        assert!(count(Ev::ApplyTla(5)) == 1 && count(Ev::Manifest(5)) == 1, "obligation: same evaluation pipeline as for stdout");
        unsafe { NLOG = 0; EVAL_FAILS = true; }
        let r = main_real(opts(true, OutputOpts { output_file: Some(PathBuf(7)), create_output_dirs: false, multi: None }));
        assert!(matches!(r, Err(Error::Evaluation(_))) && count(Ev::Create(7)) == 0 && count(Ev::Print) == 0 && count(Ev::ApplyTla(5)) == 0, "obligation: an evaluation error is reported as such and produces no output");
        kani::cover!(mkdirs);
    }
    #[kani::proof] #[kani::unwind(26)]
    fn h_multi() {
        let nl: bool = kani::any();
        unsafe { RESULT = 9; TRAILING_NL = nl; }       // result 9: a function of no arguments that yields an object { a.json, b.json }
        let r = main_real(opts(true, OutputOpts { output_file: None, create_output_dirs: false, multi: Some(PathBuf(0)) }));
        assert!(r.is_ok() && count(Ev::ApplyTla(9)) == 1, "obligation: -m applies top-level arguments first");
        assert!(count(Ev::Create(1)) == 1 && count(Ev::Create(2)) == 1 && pos(Ev::Create(1)) < pos(Ev::Create(2)), "obligation: one file per field of the result object, in field order");
        assert!(count(Ev::Manifest(1)) == 1 && count(Ev::Manifest(2)) == 1 && count(Ev::Write) == 2 && count(Ev::Print) == 2 && count(Ev::Flush) == 2, "obligation: each field is manifested into its own file and its path is listed on stdout");
        assert!(count(Ev::Newline) == if nl { 2 } else { 0 }, "obligation: a trailing newline is added iff the format asks for one");
        unsafe { NLOG = 0; RESULT = 5; }
        let r = main_real(opts(true, OutputOpts { output_file: None, create_output_dirs: false, multi: Some(PathBuf(0)) }));
        assert!(r.is_err() && count(Ev::Create(1)) == 0, "obligation: -m on a non-object result is an error");
        kani::cover!(nl); kani::cover!(!nl);
    }
}
