// Kani unit interner (C18, C04): manual ref-count header, Inner clone/drop, IStr/IBytes casts and the
// drop-time unpooling rule, over a stand-in pool map.
#![allow(unused, dead_code, static_mut_refs)]
use std::{
    alloc::{self, Layout},
    borrow::Borrow,
    cell::{RefCell, UnsafeCell},
    cmp,
    hash::{Hash, Hasher},
    mem,
    ops::Deref,
    ptr::{self, NonNull},
    slice, str,
};

// ---------------------------------------------------------------- stand-ins (trusted)
/// association list standing in for hashbrown::HashMap<Inner, (), FxBuildHasher> (raw_entry_mut / remove / is_empty / len)
pub struct PoolMap { pub slots: [Option<Inner>; 4] }
pub enum RawEntryMut<'a> { Occupied(Occ<'a>), Vacant(Vac<'a>) }
pub struct Occ<'a> { m: &'a mut PoolMap, i: usize }
pub struct Vac<'a> { m: &'a mut PoolMap }
pub struct RawBuilder<'a> { m: &'a mut PoolMap }
impl PoolMap {
    pub const fn new() -> Self { PoolMap { slots: [None, None, None, None] } }
    pub fn raw_entry_mut(&mut self) -> RawBuilder<'_> { RawBuilder { m: self } }
    pub fn remove(&mut self, k: &Inner) -> Option<()> { let mut i = 0; while i < 4 { let hit = match &self.slots[i] { Some(x) => x.as_slice() == k.as_slice(), None => false }; if hit { let v = self.slots[i].take(); mem::drop(v); return Some(()); } i += 1; } None }
    pub fn is_empty(&self) -> bool { self.slots.iter().all(|s| s.is_none()) }
    pub fn len(&self) -> usize { self.slots.iter().filter(|s| s.is_some()).count() }
}
impl<'a> RawBuilder<'a> {
    pub fn from_key(self, bytes: &[u8]) -> RawEntryMut<'a> {
        let mut i = 0; while i < 4 { let hit = match &self.m.slots[i] { Some(x) => x.as_slice() == bytes, None => false }; if hit { return RawEntryMut::Occupied(Occ { m: self.m, i }); } i += 1; }
        RawEntryMut::Vacant(Vac { m: self.m })
    }
}
impl<'a> Occ<'a> { pub fn get_key_value(&self) -> (&Inner, &()) { (self.m.slots[self.i].as_ref().unwrap(), &()) } }
impl<'a> Vac<'a> { pub fn insert(self, k: Inner, _v: ()) -> (&'a mut Inner, &'a mut ()) { let mut i = 0; while i < 4 { if self.m.slots[i].is_none() { self.m.slots[i] = Some(k); return (self.m.slots[i].as_mut().unwrap(), Box::leak(Box::new(()))); } i += 1; } panic!("stand-in pool full") } }
/// stand-in for the `thread_local! POOL` key: a plain static (Kani is single-threaded; a TLS value with Drop makes Kani 0.68 ICE)
pub struct PoolKey;
static mut POOL_CELL: RefCell<PoolMap> = RefCell::new(PoolMap::new());
fn pool_cell() -> &'static RefCell<PoolMap> { unsafe { &*std::ptr::addr_of!(POOL_CELL) } }
impl PoolKey {
    pub fn with<R>(&self, f: impl FnOnce(&RefCell<PoolMap>) -> R) -> R { f(pool_cell()) }
    pub fn try_with<R>(&self, f: impl FnOnce(&RefCell<PoolMap>) -> R) -> Result<R, ()> { Ok(f(pool_cell())) }
}
pub static POOL: PoolKey = PoolKey;

// ---------------------------------------------------------------- extracted real code (inner.rs whole, lib.rs parts)
//@item crates/jrsonnet-interner/src/inner.rs :: const UTF8_MASK
//@item crates/jrsonnet-interner/src/inner.rs :: const REFCNT_MASK
//@item crates/jrsonnet-interner/src/inner.rs :: struct InnerHeader ;; keep-attrs
//@item crates/jrsonnet-interner/src/inner.rs :: impl InnerHeader
//@item crates/jrsonnet-interner/src/inner.rs :: struct Inner ;; keep-pub
//@item crates/jrsonnet-interner/src/inner.rs :: impl Inner ;; keep-pub
//@item crates/jrsonnet-interner/src/inner.rs :: impl Clone for Inner
//@item crates/jrsonnet-interner/src/inner.rs :: impl Drop for Inner
//@item crates/jrsonnet-interner/src/inner.rs :: impl PartialEq for Inner
//@item crates/jrsonnet-interner/src/inner.rs :: impl Eq for Inner
//@item crates/jrsonnet-interner/src/inner.rs :: impl PartialOrd for Inner
//@item crates/jrsonnet-interner/src/inner.rs :: impl Ord for Inner
//@item crates/jrsonnet-interner/src/lib.rs :: struct IStr ;; std-derives keep-pub
//@item crates/jrsonnet-interner/src/lib.rs :: struct IBytes ;; std-derives keep-pub
impl IStr {
//@item crates/jrsonnet-interner/src/lib.rs :: impl IStr > fn cast_bytes ;; keep-pub
}
//@item crates/jrsonnet-interner/src/lib.rs :: impl PartialEq for IStr
//@item crates/jrsonnet-interner/src/lib.rs :: impl Deref for IStr
//@item crates/jrsonnet-interner/src/lib.rs :: impl Drop for IStr
impl IBytes {
//@item crates/jrsonnet-interner/src/lib.rs :: impl IBytes > fn cast_str ;; keep-pub
//@item crates/jrsonnet-interner/src/lib.rs :: impl IBytes > fn cast_str_unchecked
//@item crates/jrsonnet-interner/src/lib.rs :: impl IBytes > fn as_slice ;; keep-pub
}
//@item crates/jrsonnet-interner/src/lib.rs :: impl PartialEq for IBytes
//@item crates/jrsonnet-interner/src/lib.rs :: impl Drop for IBytes
//@item crates/jrsonnet-interner/src/lib.rs :: fn maybe_unpool
//@item crates/jrsonnet-interner/src/lib.rs :: fn intern_bytes ;; keep-pub
//@item crates/jrsonnet-interner/src/lib.rs :: fn intern_str ;; keep-pub

#[cfg(kani)]
mod harness {
    use super::*;
    fn pool_len() -> usize { pool_cell().borrow().len() }

    /// header word: flag bit and 31-bit count never bleed into each other
    #[kani::proof]
    fn h_header() {
        let size: u32 = kani::any(); let utf8: bool = kani::any();
        let mut h = InnerHeader::new(size, utf8);
        assert!(h.refcnt() == 1 && h.is_utf8() == utf8 && h.size == size, "obligation: fresh header has count 1 and the given flag");
        let c: u32 = kani::any(); kani::assume(c & UTF8_MASK == 0);
        h.set_refcnt(c);
        assert!(h.refcnt() == c && h.is_utf8() == utf8, "obligation: storing a count leaves the utf-8 flag alone");
        h.set_is_utf8();
        assert!(h.refcnt() == c && h.is_utf8(), "obligation: setting the flag leaves the count alone");
        kani::cover!(c == REFCNT_MASK);
    }

    /// Inner: clone/drop keep an exact handle count, contents are preserved, memory is released exactly once
    /// (CBMC's memory model checks use-after-free / double free / leaks of the raw alloc+dealloc)
    #[kani::proof]
    #[kani::unwind(4)]
    fn h_inner_rc() {
        let bytes: [u8; 2] = kani::any();
        let a = Inner::new_bytes(&bytes);
        assert!(Inner::strong_count(&a) == 1 && a.as_slice() == &bytes[..], "obligation: new value has one handle and the given contents");
        let b = a.clone();
        let c = b.clone();
        assert!(Inner::strong_count(&a) == 3 && Inner::ptr_eq(&a, &c), "obligation: clones share storage and are counted");
        mem::drop(b);
        assert!(Inner::strong_count(&a) == 2 && c.as_slice() == &bytes[..], "obligation: live values keep their contents after another handle is dropped");
        mem::drop(a);
        assert!(Inner::strong_count(&c) == 1 && c.as_slice() == &bytes[..]);
        mem::drop(c);      // last handle: dealloc; CBMC reports a leak / double free here if the count is off
        kani::cover!(true);
    }

    /// the cached "is UTF-8" flag (decides whether bytes may be viewed as a string: std.decodeUTF8, base64Decode, bytes -> str casts):
    /// set exactly for well-formed UTF-8, for every payload of one or two bytes; the cached answer equals the first one
    #[kani::proof]
    #[kani::unwind(6)]
    fn h_check_utf8() {
        let bytes: [u8; 2] = kani::any(); let one: bool = kani::any();
        let a = if one { Inner::new_bytes(&bytes[..1]) } else { Inner::new_bytes(&bytes) };
        // RFC 3629 for <= 2 bytes: ASCII bytes, or one 2-byte sequence C2..DF 80..BF
        let ascii = |b: u8| b < 0x80;
        let want = if one { ascii(bytes[0]) } else { (ascii(bytes[0]) && ascii(bytes[1])) || (bytes[0] >= 0xC2 && bytes[0] <= 0xDF && bytes[1] >= 0x80 && bytes[1] <= 0xBF) };
        let first = Inner::check_utf8(&a);
        assert!(first == want, "obligation: a byte payload is accepted as a string exactly when it is well-formed UTF-8 (0x80..0xBF alone, C0/C1, truncated sequences are not)");
        assert!(Inner::check_utf8(&a) == first, "obligation: the cached answer equals the computed one");
        mem::drop(a);
        kani::cover!(one && bytes[0] == 0x80); kani::cover!(!one && want && bytes[0] >= 0xC2);
    }

    /// canonicity and unpooling: two interned values are == iff their contents are equal; the pool holds one entry
    /// per distinct live content; dropping the last handle removes the entry; a failed bytes->str cast leaks nothing
    #[kani::proof]
    #[kani::unwind(6)]
    fn h_pool() {
        let x: [u8; 1] = [kani::any()]; let y: [u8; 1] = [kani::any()];
        let a = intern_bytes(&x);
        let b = intern_bytes(&y);
        assert!((a == b) == (x == y), "obligation: interned values compare equal exactly when their contents are equal");
        assert!(pool_len() == if x == y { 1 } else { 2 }, "obligation: one pool entry per distinct live content");
        assert!(a.as_slice() == &x[..] && b.as_slice() == &y[..], "obligation: live values keep their contents");
        // bytes -> str cast: succeeds exactly for valid UTF-8, and never changes the number of live handles
        let before = Inner::strong_count(&b.0);
        let s = b.clone().cast_str();
        assert!(s.is_some() == (y[0] < 0x80), "obligation: cast_str succeeds exactly on valid UTF-8");
        match s {
            Some(st) => { assert!(Inner::strong_count(&b.0) == before + 1, "obligation: the cast handle is counted"); let back = st.cast_bytes(); assert!(back == b, "obligation: str -> bytes -> str is the same interned value"); }
            None => assert!(Inner::strong_count(&b.0) == before, "obligation: a failed cast releases its handle (nothing stays pinned in the pool)"),
        }
        assert!(Inner::strong_count(&b.0) == before, "obligation: temporaries of the casts are released");
        mem::drop(a);
        assert!(pool_len() == 1, "obligation: dropping the last handle of a content removes it from the pool, a shared content stays");
        mem::drop(b);
        assert!(pool_len() == 0, "obligation: values dropped to zero references leave the pool");
        kani::cover!(x == y);
        kani::cover!(y[0] >= 0x80);
    }
}
