// Kani unit fields_order (C16, C13, C05): object field enumeration (fields_ex) and the "did you mean" field suggestions must
// not depend on the iteration order of the underlying hash map, and list names in ascending order.
#![allow(unused, dead_code, static_mut_refs)]
use std::cmp::Ordering;

// ---------------------------------------------------------------- stand-ins (trusted)
#[derive(Debug, Clone, Copy)]
pub struct IStr(pub &'static str);
impl IStr { pub fn as_str(&self) -> &str { self.0 } }
// names are "f<digit>": content order = digit order
impl PartialEq for IStr { fn eq(&self, o: &Self) -> bool { self.0.as_bytes()[1] == o.0.as_bytes()[1] } }
impl Eq for IStr {}
impl PartialOrd for IStr { fn partial_cmp(&self, o: &Self) -> Option<Ordering> { Some(self.cmp(o)) } }
impl Ord for IStr { fn cmp(&self, o: &Self) -> Ordering { self.0.as_bytes()[1].cmp(&o.0.as_bytes()[1]) } }
pub const NAMES: [IStr; 3] = [IStr("f0"), IStr("f1"), IStr("f2")];
static mut SCORES: [f64; 3] = [0.0; 3];
pub mod strsim { pub fn jaro_winkler(a: &str, _b: &str) -> f64 { unsafe { super::SCORES[(a.as_bytes()[1] - b'0') as usize] } } }
#[derive(Debug, Clone, Copy)]
pub struct FieldVisibilityData { pub vis: bool }
impl FieldVisibilityData { pub fn visible(&self) -> bool { self.vis } }
/// hash map stand-in: iterates its 3 entries in a harness-chosen order
pub struct Map { pub order: [usize; 3], pub vis: [bool; 3], pub present: [bool; 3] }
pub struct MapIter { m: Map, i: usize }
impl Iterator for MapIter { type Item = (IStr, FieldVisibilityData); fn next(&mut self) -> Option<Self::Item> { while self.i < 3 { let k = self.m.order[self.i]; self.i += 1; if self.m.present[k] { return Some((NAMES[k], FieldVisibilityData { vis: self.m.vis[k] })); } } None } }
impl Map { pub fn into_iter(self) -> MapIter { MapIter { m: self, i: 0 } } }
#[derive(Debug, Clone, Copy)]
pub struct ObjValue { pub order: [usize; 3], pub vis: [bool; 3], pub present: [bool; 3] }
impl ObjValue { fn fields_visibility(&self) -> Map { Map { order: self.order, vis: self.vis, present: self.present } } }
/// fixed-capacity Vec with sort_unstable (any correct sort) and a STABLE sort_by (std guarantee)
#[derive(Debug, Clone, Copy, PartialEq)]
pub struct Vec<T: Copy> { pub buf: [Option<T>; 4], pub len: usize }
impl<T: Copy> Vec<T> {
    pub fn new() -> Self { Vec { buf: [None; 4], len: 0 } }
    pub fn push(&mut self, v: T) { assert!(self.len < 4); self.buf[self.len] = Some(v); self.len += 1; }
    pub fn sort_by(&mut self, mut f: impl FnMut(&T, &T) -> Ordering) { let mut i = 1; while i < self.len { let mut j = i; while j > 0 && f(self.buf[j - 1].as_ref().unwrap(), self.buf[j].as_ref().unwrap()) == Ordering::Greater { self.buf.swap(j - 1, j); j -= 1; } i += 1; } }
    pub fn sort_unstable(&mut self) where T: Ord { self.sort_by(|a, b| a.cmp(b)) }
    pub fn into_iter(self) -> VIter<T> { VIter { v: self, i: 0 } }
}
#[derive(Clone, Copy)]
pub struct VIter<T: Copy> { v: Vec<T>, i: usize }
impl<T: Copy> Iterator for VIter<T> { type Item = T; fn next(&mut self) -> Option<T> { if self.i < self.v.len { self.i += 1; self.v.buf[self.i - 1] } else { None } } }
impl<T: Copy> std::iter::FromIterator<T> for Vec<T> { fn from_iter<I: IntoIterator<Item = T>>(it: I) -> Self { let mut v = Vec::new(); for x in it { v.push(x); } v } }
impl<T: Copy> IntoIterator for Vec<T> { type Item = T; type IntoIter = VIter<T>; fn into_iter(self) -> VIter<T> { VIter { v: self, i: 0 } } }

// ---------------------------------------------------------------- extracted real code
impl ObjValue {
//@item crates/jrsonnet-evaluator/src/obj/mod.rs :: impl ObjValue #* > fn fields_ex ;; keep-pub
//@item crates/jrsonnet-evaluator/src/obj/mod.rs :: impl ObjValue #* > fn fields ;; keep-pub
}
//@item crates/jrsonnet-evaluator/src/error.rs :: fn suggest_object_fields

#[cfg(kani)]
mod harness {
    use super::*;
    fn any_perm() -> [usize; 3] { let p: u8 = kani::any(); kani::assume(p < 6); match p { 0 => [0, 1, 2], 1 => [0, 2, 1], 2 => [1, 0, 2], 3 => [1, 2, 0], 4 => [2, 0, 1], _ => [2, 1, 0] } }
    fn any_score() -> f64 { let s: u8 = kani::any(); kani::assume(s < 3); match s { 0 => 0.5, 1 => 0.85, _ => 0.95 } }

    /// std.objectFields / objectFieldsAll / manifestation order: visible (or all) names, ascending, whatever the hash order
    #[kani::proof]
    #[kani::unwind(6)]
    fn h_fields_ex_visible() { check_fields_ex(false); }
    #[kani::proof]
    #[kani::unwind(6)]
    fn h_fields_ex_all() { check_fields_ex(true); }
    fn check_fields_ex(hidden: bool) {
        let vis: [bool; 3] = kani::any(); let present: [bool; 3] = [true, kani::any(), true];
        let (p1, p2) = (any_perm(), [0usize, 1, 2]);   // every order against the canonical one (equality is transitive)
        let a = ObjValue { order: p1, vis, present }.fields_ex(hidden);
        let b = ObjValue { order: p2, vis, present }.fields_ex(hidden);
        assert!(a == b, "obligation: enumeration order of object fields never depends on hash-table iteration order");
        let mut want = Vec::new(); let mut k = 0; while k < 3 { if present[k] && (hidden || vis[k]) { want.push(NAMES[k]); } k += 1; }
        assert!(a == want, "obligation: field names are listed in ascending order; hidden fields only when asked for");
        assert!(ObjValue { order: p1, vis, present }.fields() == ObjValue { order: p1, vis, present }.fields_ex(false), "obligation: fields() lists the visible fields");
        kani::cover!(p1[0] != 0);
    }

    /// "no such field ... did you mean" suggestions: same list for every hash order
    #[kani::proof]
    #[kani::unwind(6)]
    fn h_suggest_fields() {
        unsafe { SCORES = [any_score(), any_score(), any_score()]; }
        let (p1, p2) = (any_perm(), [0usize, 1, 2]);   // every order against the canonical one (equality is transitive)
        let vis: [bool; 3] = kani::any();
        let a = suggest_object_fields(&ObjValue { order: p1, vis, present: [true; 3] }, IStr("f9"));
        let b = suggest_object_fields(&ObjValue { order: p2, vis, present: [true; 3] }, IStr("f9"));
        assert!(a == b, "obligation: suggestions in error messages never depend on hash-table iteration order");
        kani::cover!((p1[0] != p2[0] || p1[1] != p2[1]) && unsafe { SCORES[0] == SCORES[1] && SCORES[0] > 0.8 });
    }
}
