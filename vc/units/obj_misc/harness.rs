// Kani unit obj_misc (C13 equality, C02/C03 cached object-local contexts, C02/C16 assertion guard).
#![allow(unused, dead_code, static_mut_refs)]
use std::cell::{Cell, RefCell};
use std::rc::Rc;

// ---------------------------------------------------------------- stand-ins (trusted)
//@include fixed_string.rs
pub trait Trace {}
impl<T: ?Sized> Trace for T {}
pub type Cc<T> = Rc<T>;
#[derive(Debug, Clone, Copy, PartialEq, Eq)]
pub struct Error(pub u8);
pub type Result<T, E = Error> = std::result::Result<T, E>;
pub type IStr = u8;
#[derive(Debug, Clone, Copy, PartialEq, Eq)]
pub enum ValType { Null, Num, Arr, Obj }

// --- (a) values for `equals`
#[derive(Debug, Clone, Copy, PartialEq, Eq)]
pub struct Field { pub name: u8, pub hidden: bool, pub val: u8 }
#[derive(Debug, Clone, Copy)]
pub struct ObjValue { pub f: [Field; 2], pub n: usize, pub id: u8 }
impl ObjValue {
    pub fn ptr_eq(a: &Self, b: &Self) -> bool { a.id == b.id }
    /// visible field names, ascending (contract of ObjValue::fields, unit obj_walkers / fields_ex)
    pub fn fields(&self) -> Vec<IStr> {
        let mut v = Vec::new();
        let mut i = 0; while i < self.n { if !self.f[i].hidden { v.push(self.f[i].name); } i += 1; }
        if v.len() == 2 && v[0] > v[1] { v.swap(0, 1); }
        v
    }
    /// like the real ObjValue::get: finds hidden fields too
    pub fn get(&self, k: IStr) -> Result<Option<Val>> { let mut i = 0; let mut r = None; while i < self.n { if self.f[i].name == k { r = Some(Val::Num(self.f[i].val)); } i += 1; } Ok(r) }
    pub fn len(&self) -> usize { let mut c = 0; let mut i = 0; while i < self.n { if !self.f[i].hidden { c += 1; } i += 1; } c }
}
#[derive(Debug, Clone, Copy)]
pub struct ArrValue;
impl ArrValue { pub fn ptr_eq(_: &Self, _: &Self) -> bool { true } pub fn len(&self) -> usize { 0 } pub fn iter(&self) -> std::iter::Empty<Result<Val>> { std::iter::empty() } }
#[derive(Debug, Clone, Copy)]
pub enum Val { Null, Num(u8), Arr(ArrValue), Obj(ObjValue) }
impl Val { pub fn value_type(&self) -> ValType { match self { Val::Null => ValType::Null, Val::Num(_) => ValType::Num, Val::Arr(_) => ValType::Arr, Val::Obj(_) => ValType::Obj } } }
/// contract of `equals` on element values (numbers/null here)
pub fn equals_leaf(a: &Val, b: &Val) -> Result<bool> { primitive_equals(a, b) }
/// numbers/null only; the real primitive_equals is verified in unit num_core
pub fn primitive_equals(a: &Val, b: &Val) -> Result<bool> { Ok(match (a, b) { (Val::Num(x), Val::Num(y)) => x == y, (Val::Null, Val::Null) => true, _ => false }) }

// --- (b) cached object-local contexts
#[derive(Debug, Clone, Copy, PartialEq, Eq)]
pub struct CoreIdx { pub idx: usize }
// mirrors the real API surface: SupThis::{downgrade, this, has_super}, ObjValue::downgrade, WeakObjValue / WeakSupThis as hashable keys
#[derive(Debug, Clone, Copy, PartialEq, Eq)]
pub struct ObjH(pub u8);
#[derive(Debug, Clone, Copy, PartialEq, Eq)]
pub struct WeakObjValue(pub u8);
impl ObjH { pub fn downgrade(self) -> WeakObjValue { WeakObjValue(self.0) } }
#[derive(Debug, Clone, Copy, PartialEq, Eq)]
pub struct SupThis { pub sup: CoreIdx, pub this: ObjH }
#[derive(Debug, Clone, Copy, PartialEq, Eq)]
pub struct WeakSupThis { pub sup: CoreIdx, pub this: WeakObjValue }
impl SupThis { pub fn downgrade(self) -> WeakSupThis { WeakSupThis { sup: self.sup, this: self.this.downgrade() } } pub fn this(&self) -> &ObjH { &self.this } pub fn has_super(&self) -> bool { self.sup.idx != 0 } }
pub trait Unbound: Trace { type Bound; fn bind(&self, sup_this: SupThis) -> Result<Self::Bound>; }
/// small association list standing in for FxHashMap (get / insert / new)
pub struct FxHashMap<K, V> { items: [Option<(K, V)>; 4] }
impl<K: PartialEq, V> FxHashMap<K, V> {
    pub fn new() -> Self { FxHashMap { items: [None, None, None, None] } }
    pub fn get(&self, k: &K) -> Option<&V> { let mut i = 0; while i < 4 { if let Some((kk, v)) = &self.items[i] { if kk == k { return Some(v); } } i += 1; } None }
    pub fn insert(&mut self, k: K, v: V) -> Option<V> {
        let mut i = 0;
        while i < 4 {
            let hit = match &self.items[i] { Some((kk, _)) => *kk == k, None => true };
            if hit { return self.items[i].replace((k, v)).map(|o| o.1); }
            i += 1;
        }
        panic!("stand-in map full")
    }
}

// --- (c) assertion runner
pub struct Core { pub outcome: Result<()> }
pub struct CoreBox(pub Core);
static mut ASSERT_RUNS: [u8; 2] = [0; 2];
static mut SAW_SELF_ASSERTING: bool = true;
impl Core { pub fn run_assertions_core(&self, st: SupThis2) -> Result<()> { unsafe { ASSERT_RUNS[st.sup.idx] += 1; if !is_asserting(&st.this) { SAW_SELF_ASSERTING = false; } } self.outcome } }
pub struct AObjInner { pub cores: [CoreBox; 2], pub assertions_ran: Cell<bool>, pub id: u8 }
#[derive(Clone)]
pub struct AObj(pub Rc<AObjInner>);
pub struct SupThis2 { pub sup: CoreIdx, pub this: AObj }
pub struct FxHashSet { ids: [Option<u8>; 4] }
impl FxHashSet {
    pub fn contains(&self, o: &AObj) -> bool { self.ids.iter().any(|x| *x == Some(o.0.id)) }
    pub fn insert(&mut self, o: AObj) -> bool { if self.contains(&o) { return false; } let mut i = 0; while i < 4 { if self.ids[i].is_none() { self.ids[i] = Some(o.0.id); return true; } i += 1; } panic!("stand-in set full") }
    pub fn remove(&mut self, o: &AObj) -> bool { let mut i = 0; while i < 4 { if self.ids[i] == Some(o.0.id) { self.ids[i] = None; return true; } i += 1; } false }
}
impl Default for FxHashSet { fn default() -> Self { FxHashSet { ids: [None; 4] } } }
thread_local! { static RUNNING_ASSERTIONS: RefCell<FxHashSet> = RefCell::default(); }

// ---------------------------------------------------------------- extracted real code
// the two recursive calls are cut at the contract of `equals` on the (smaller) element values: rename `!equals(` -> `!equals_leaf(`
//@item crates/jrsonnet-evaluator/src/val.rs :: fn equals ;; keep-pub rename=!equals(->!equals_leaf(
//@item crates/jrsonnet-evaluator/src/val.rs :: struct CachedUnbound ;; keep-pub
//@item crates/jrsonnet-evaluator/src/val.rs :: impl<I: Unbound<Bound = T>, T: Trace> CachedUnbound<I, T> ;; keep-pub
//@item crates/jrsonnet-evaluator/src/val.rs :: impl<I: Unbound<Bound = T>, T: Clone + Trace> Unbound for CachedUnbound<I, T>
//@item crates/jrsonnet-evaluator/src/obj/mod.rs :: fn is_asserting ;; rename=ObjValue->AObj
//@item crates/jrsonnet-evaluator/src/obj/mod.rs :: fn start_asserting ;; rename=ObjValue->AObj
//@item crates/jrsonnet-evaluator/src/obj/mod.rs :: fn finish_asserting ;; rename=ObjValue->AObj
impl AObj {
//@item crates/jrsonnet-evaluator/src/obj/mod.rs :: impl ObjValue #* > fn run_assertions ;; keep-pub rename=SupThis->SupThis2
}

#[cfg(kani)]
mod harness {
    use super::*;

    fn any_obj(id: u8) -> ObjValue {
        let n: usize = 2;   // two declared fields each; hiding makes the visible sets differ in size
        let f = [Field { name: kani::any(), hidden: kani::any(), val: kani::any() }, Field { name: kani::any(), hidden: kani::any(), val: kani::any() }];
        kani::assume(f[0].name < 3 && f[1].name < 3 && f[0].val < 2 && f[1].val < 2);
        kani::assume(n < 2 || f[0].name != f[1].name);
        ObjValue { f, n, id }
    }
    fn vis(o: &ObjValue, name: u8) -> Option<u8> { let mut i = 0; let mut r = None; while i < o.n { if o.f[i].name == name && !o.f[i].hidden { r = Some(o.f[i].val); } i += 1; } r }

    /// structural equality of objects: same VISIBLE field names and equal values; hidden fields are ignored on both sides
    #[kani::proof]
    #[kani::unwind(4)]
    fn h_equals_obj() {
        let (a, b) = (any_obj(1), any_obj(2));
        let r = match equals(&Val::Obj(a), &Val::Obj(b)) { Ok(v) => v, Err(_) => panic!("obligation: equality of evaluated objects cannot fail") };
        let want = vis(&a, 0) == vis(&b, 0) && vis(&a, 1) == vis(&b, 1) && vis(&a, 2) == vis(&b, 2);
        assert!(r == want, "obligation: objects are equal iff they have the same visible fields with equal values");
        assert!(matches!(equals(&Val::Obj(a), &Val::Num(1)), Ok(false)) && matches!(equals(&Val::Null, &Val::Null), Ok(true)), "obligation: values of different types are unequal");
        kani::cover!(want && (a.f[0].hidden || a.f[1].hidden));
        kani::cover!(!want);
    }

    // ---- cached unbound
    static mut BINDS: u8 = 0;
    struct Inner;
    impl Unbound for Inner { type Bound = u8; fn bind(&self, st: SupThis) -> Result<u8> { unsafe { BINDS += 1; } if st.this.0 == 9 { Err(Error(7)) } else { Ok((st.sup.idx as u8) * 16 + st.this.0) } } }

    /// the cached context is per (object, super position): same key -> bound once; a different super position or
    /// a different object -> its own binding (never a stale one); failures are not cached as successes
    #[kani::proof]
    #[kani::unwind(6)]
    fn h_cached_unbound() {
        let c = CachedUnbound::new(Inner);
        let s1 = SupThis { sup: CoreIdx { idx: kani::any() }, this: ObjH(kani::any()) };
        let s2 = SupThis { sup: CoreIdx { idx: kani::any() }, this: ObjH(kani::any()) };
        kani::assume(s1.sup.idx < 4 && s2.sup.idx < 4 && s1.this.0 < 4 && s2.this.0 < 4);
        let a1 = c.bind(s1); let a2 = c.bind(s1);
        unsafe { assert!(BINDS == 1, "obligation: object locals are bound at most once per (object, super position)"); }
        assert!(a1 == Ok((s1.sup.idx as u8) * 16 + s1.this.0) && a2 == a1, "obligation: cached binding is the binding of that key");
        let b1 = c.bind(s2);
        assert!(b1 == Ok((s2.sup.idx as u8) * 16 + s2.this.0), "obligation: a different object or super position gets its own binding, never a cached one of another key");
        unsafe { assert!(BINDS == if s1 == s2 { 1 } else { 2 }); }
        kani::cover!(s1.this == s2.this && s1.sup != s2.sup);
        kani::cover!(s1 == s2);
    }

    /// object assertions: each layer's assertion runs once, in order, while the object is marked as asserting; the
    /// marker is removed on success AND on failure; success is remembered, failure is not
    #[kani::proof]
    #[kani::unwind(6)]
    fn h_run_assertions() {
        let o0: Result<()> = if kani::any() { Ok(()) } else { Err(Error(1)) };
        let o1: Result<()> = if kani::any() { Ok(()) } else { Err(Error(2)) };
        let obj = AObj(Rc::new(AObjInner { cores: [CoreBox(Core { outcome: o0 }), CoreBox(Core { outcome: o1 })], assertions_ran: Cell::new(false), id: 5 }));
        let r = obj.run_assertions();
        let want = if o0.is_err() { o0 } else { o1 };
        assert!(r == want, "obligation: the first failing assertion is reported");
        assert!(!is_asserting(&obj), "obligation: the running-assertions marker is cleared on every exit path (thread-local state restored)");
        unsafe {
            assert!(SAW_SELF_ASSERTING, "obligation: assertions run while the object is marked as asserting (re-entrancy guard)");
            assert!(ASSERT_RUNS[0] == 1 && ASSERT_RUNS[1] == if o0.is_ok() { 1 } else { 0 }, "obligation: assertions run once, left to right, stopping at the first failure");
        }
        assert!(obj.0.assertions_ran.get() == r.is_ok(), "obligation: only a successful run is remembered");
        let r2 = obj.run_assertions();
        unsafe { if r.is_ok() { assert!(r2.is_ok() && ASSERT_RUNS[0] == 1, "obligation: assertions run once per object"); } else { assert!(r2 == want && !is_asserting(&obj), "obligation: a failed object fails again and stays clean"); } }
        kani::cover!(o0.is_ok() && o1.is_err());
        kani::cover!(r.is_ok());
    }
}
