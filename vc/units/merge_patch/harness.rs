// Kani unit merge_patch (C13, C04): std.mergePatch, one level; the recursive call is cut at its own contract.
#![allow(unused, dead_code, static_mut_refs)]

// ---------------------------------------------------------------- stand-ins (trusted)
pub type IStr = u8;                      // field names 0..2
#[derive(Debug, Clone, Copy, PartialEq, Eq)]
pub struct Error;
pub type Result<T> = std::result::Result<T, Error>;
/// a field slot: absent, null, a scalar s, or an object o (opaque id)
#[derive(Debug, Clone, Copy, PartialEq, Eq)]
pub enum Val { Null, Num(u8), Obj(ObjValue), Merged { target: u8, patch: u8 }, LazyTarget(u8) }
#[derive(Debug, Clone, Copy, PartialEq, Eq)]
pub struct Thunk<T> { pub field: u8, _p: std::marker::PhantomData<T> }
/// objects: up to 3 field slots; slot code: 0 absent, 1 null, 2 scalar, 3 nested object; `id` tells target (1) from patch (2)
#[derive(Debug, Clone, Copy, PartialEq, Eq)]
pub struct ObjValue { pub id: u8, pub slots: [u8; 3] }
static mut TARGET_READS: [u8; 3] = [0; 3];
fn slot_val(id: u8, k: u8, code: u8) -> Val { match code { 1 => Val::Null, 2 => Val::Num(id * 10 + k), _ => Val::Obj(ObjValue { id: id * 10 + k, slots: [0; 3] }) } }
impl ObjValue {
    pub fn empty() -> Self { ObjValue { id: 0, slots: [0; 3] } }
    pub fn fields(&self) -> FieldList { FieldList { o: *self } }
    pub fn get(&self, k: IStr) -> Result<Option<Val>> { if self.id == 1 { unsafe { TARGET_READS[k as usize] += 1; } } let c = self.slots[k as usize]; Ok(if c == 0 { None } else { Some(slot_val(self.id, k, c)) }) }
    pub fn get_lazy(&self, k: IStr) -> Option<Thunk<Val>> { if self.slots[k as usize] == 0 { None } else { Some(Thunk { field: k, _p: std::marker::PhantomData }) } }
}
impl Val { pub fn as_obj(&self) -> Option<ObjValue> { match self { Val::Obj(o) => Some(*o), _ => None } } }
impl From<ObjValue> for Val { fn from(o: ObjValue) -> Val { Val::Obj(o) } }
pub struct FieldList { o: ObjValue }
impl FieldList { pub fn into_iter(self) -> FieldIter { FieldIter { o: self.o, i: 0 } } }
pub struct FieldIter { o: ObjValue, i: u8 }
impl Iterator for FieldIter { type Item = IStr; fn next(&mut self) -> Option<IStr> { while self.i < 3 { let k = self.i; self.i += 1; if self.o.slots[k as usize] != 0 { return Some(k); } } None } }
/// ordered set of names with union (std BTreeSet stand-in: ascending iteration, union = ascending merge)
#[derive(Debug, Clone, Copy)]
pub struct BTreeSet<T> { pub has: [bool; 3], _p: std::marker::PhantomData<T> }
impl std::iter::FromIterator<IStr> for BTreeSet<IStr> { fn from_iter<I: IntoIterator<Item = IStr>>(it: I) -> Self { let mut has = [false; 3]; for k in it { has[k as usize] = true; } BTreeSet { has, _p: std::marker::PhantomData } } }
pub struct UnionIter { has: [bool; 3], i: u8 }
static NAMES: [IStr; 3] = [0, 1, 2];
impl Iterator for UnionIter { type Item = &'static IStr; fn next(&mut self) -> Option<&'static IStr> { while self.i < 3 { let k = self.i; self.i += 1; if self.has[k as usize] { return Some(&NAMES[k as usize]); } } None } }
impl BTreeSet<IStr> { pub fn union(&self, o: &BTreeSet<IStr>) -> UnionIter { UnionIter { has: [self.has[0] || o.has[0], self.has[1] || o.has[1], self.has[2] || o.has[2]], i: 0 } } }
/// builder recording what each output field was set to
pub struct ObjValueBuilder { pub out: [Option<Val>; 3] }
pub struct FieldB<'a> { b: &'a mut ObjValueBuilder, k: IStr }
impl ObjValueBuilder {
    pub fn new() -> Self { ObjValueBuilder { out: [None; 3] } }
    pub fn field(&mut self, k: IStr) -> FieldB<'_> { FieldB { b: self, k } }
    pub fn build(self) -> BuiltObj { BuiltObj { out: self.out } }
}
impl<'a> FieldB<'a> { pub fn value(self, v: Val) { self.b.out[self.k as usize] = Some(v); } pub fn thunk(self, t: Thunk<Val>) { self.b.out[self.k as usize] = Some(Val::LazyTarget(t.field)); } }
#[derive(Debug, Clone, Copy, PartialEq, Eq)]
pub struct BuiltObj { pub out: [Option<Val>; 3] }
static mut LAST_BUILT: Option<BuiltObj> = None;
impl From<BuiltObj> for Val { fn from(b: BuiltObj) -> Val { unsafe { LAST_BUILT = Some(b); } Val::Obj(ObjValue { id: 99, slots: [0; 3] }) } }
/// contract of the recursive call mergePatch(target_field_or_null, patch_field): recorded symbolically
pub fn merge_patch_rec(t: Val, p: Val) -> Result<Val> {
    let tc = match t { Val::Null => 0, Val::Num(x) => x, Val::Obj(o) => o.id, _ => 255 };
    let pc = match p { Val::Num(x) => x, Val::Obj(o) => o.id, _ => 255 };
    Ok(Val::Merged { target: tc, patch: pc })
}

// ---------------------------------------------------------------- extracted real code
// the recursive call site is redirected to the callee contract: `(builtin_merge_patch(field_target` -> `(merge_patch_rec(field_target`
//@item crates/jrsonnet-stdlib/src/misc.rs :: fn builtin_merge_patch ;; keep-pub rename=(builtin_merge_patch(field_target->(merge_patch_rec(field_target

#[cfg(kani)]
mod harness {
    use super::*;
    /// RFC 7396 / std.mergePatch on objects with fields 0..2: patch null removes; other patch values are MERGED INTO the target
    /// field (or into null when the target lacks it -- so that nulls nested in a new value are stripped too); target-only fields
    /// are kept and stay unevaluated; a non-object patch replaces the target
    #[kani::proof]
    #[kani::unwind(6)]
    fn h_merge_patch() {
        let ts: [u8; 3] = kani::any(); let ps: [u8; 3] = kani::any();
        kani::assume(ts[0] < 4 && ts[1] < 4 && ts[2] < 4 && ps[0] < 4 && ps[1] < 4 && ps[2] < 4);
        let target = ObjValue { id: 1, slots: ts }; let patch = ObjValue { id: 2, slots: ps };
        let r = builtin_merge_patch(Val::Obj(target), Val::Obj(patch));
        assert!(r.is_ok(), "obligation: merging objects cannot fail");
        let b = unsafe { LAST_BUILT.unwrap() };
        let mut k = 0u8;
        while k < 3 {
            let (t, p) = (ts[k as usize], ps[k as usize]);
            let got = b.out[k as usize];
            if p == 1 { assert!(got.is_none(), "obligation: a null in the patch removes the field"); }
            else if p == 0 { if t == 0 { assert!(got.is_none()); } else { assert!(got == Some(Val::LazyTarget(k)), "obligation: fields untouched by the patch are kept, unevaluated"); unsafe { assert!(TARGET_READS[k as usize] == 0, "obligation: untouched target fields are not evaluated"); } } }
            else {
                let tc = match t { 0 | 1 => 0, 2 => 10 + k, _ => 10 + k };
                let pc = 20 + k;
                assert!(got == Some(Val::Merged { target: tc, patch: pc }), "obligation: a patched field is mergePatch(target field or null, patch field) -- also for fields new to the target");
            }
            k += 1;
        }
        assert!(builtin_merge_patch(Val::Obj(target), Val::Num(5)) == Ok(Val::Num(5)), "obligation: a non-object patch replaces the target");
        kani::cover!(ps[0] == 3 && ts[0] == 0);
        kani::cover!(ps[1] == 1 && ts[1] == 2);
    }
}
