// Kani unit std_arrays2 (C10, C04): element-scanning builtins std.member / contains / find / count / any / all / remove
// and std.flattenArrays, on arrays of 3 elements.
#![allow(unused, dead_code)]

// ---------------------------------------------------------------- stand-ins (trusted)
#[derive(Debug, Clone, Copy, PartialEq, Eq)]
pub struct Error;
pub type Result<T> = std::result::Result<T, Error>;
macro_rules! bail { ($l:literal) => { return Err(Error) }; }
#[derive(Debug, Clone, Copy, PartialEq, Eq)]
pub enum Val { Num(u8), Bool(bool) }
pub fn equals(a: &Val, b: &Val) -> Result<bool> { Ok(a == b) }          // contract of val::equals on scalars
pub trait FromUntyped: Sized { fn from_untyped(v: Val) -> Result<Self>; }
impl FromUntyped for bool { fn from_untyped(v: Val) -> Result<bool> { match v { Val::Bool(b) => Ok(b), _ => Err(Error) } } }
#[derive(Debug, Clone, Copy, PartialEq, Eq)]
pub struct IStr(pub &'static str);
impl IStr { pub fn is_empty(&self) -> bool { self.0.is_empty() } }
impl std::ops::Deref for IStr { type Target = str; fn deref(&self) -> &str { self.0 } }
impl FromUntyped for IStr { fn from_untyped(_v: Val) -> Result<IStr> { Err(Error) } }
pub const N: usize = 3;
#[derive(Debug, Clone, Copy, PartialEq, Eq)]
pub struct ArrValue { pub items: [Val; 6], pub n: usize }
pub struct AIter { a: ArrValue, i: usize }
impl Iterator for AIter { type Item = Result<Val>; fn next(&mut self) -> Option<Result<Val>> { if self.i < self.a.n { self.i += 1; Some(Ok(self.a.items[self.i - 1])) } else { None } } }
impl ArrValue {
    pub fn iter(&self) -> AIter { AIter { a: *self, i: 0 } }
    pub fn len(&self) -> usize { self.n }
    pub fn empty() -> Self { ArrValue { items: [Val::Num(0); 6], n: 0 } }
    /// contracts of ArrValue::slice (start/end given as in removeAt) and ::extended -- units arr_ctor / arr_views / arr_extended
    pub fn slice(self, index: Option<i32>, end: Option<i32>, _step: Option<std::num::NonZeroU32>) -> Self {
        let f = index.map_or(0, |v| (v.max(0) as usize).min(self.n)); let t = end.map_or(self.n, |v| (v.max(0) as usize).min(self.n));
        let mut o = ArrValue::empty(); let mut i = f; while i < t { o.items[o.n] = self.items[i]; o.n += 1; i += 1; } o
    }
    pub fn extended(a: Self, b: Self) -> Self { let mut o = a; let mut i = 0; while i < b.n { o.items[o.n] = b.items[i]; o.n += 1; i += 1; } o }
}
pub enum IndexableVal { Str(IStr), Arr(ArrValue) }
/// fixed-capacity Vec for std.find's result and flattenArrays' argument
#[derive(Debug, Clone, Copy, PartialEq, Eq)]
pub struct Vec<T: Copy> { pub buf: [Option<T>; 4], pub len: usize }
impl<T: Copy> Vec<T> {
    pub fn new() -> Self { Vec { buf: [None; 4], len: 0 } }
    pub fn push(&mut self, v: T) { assert!(self.len < 4); self.buf[self.len] = Some(v); self.len += 1; }
    pub fn is_empty(&self) -> bool { self.len == 0 }
    pub fn len(&self) -> usize { self.len }
    pub fn into_iter(self) -> VIter<T> { VIter { v: self, i: 0 } }
}
pub struct VIter<T: Copy> { v: Vec<T>, i: usize }
impl<T: Copy> Iterator for VIter<T> { type Item = T; fn next(&mut self) -> Option<T> { if self.i < self.v.len { self.i += 1; self.v.buf[self.i - 1] } else { None } } }

// ---------------------------------------------------------------- extracted real code
//@item crates/jrsonnet-stdlib/src/arrays.rs :: fn builtin_any ;; keep-pub
//@item crates/jrsonnet-stdlib/src/arrays.rs :: fn builtin_all ;; keep-pub
//@item crates/jrsonnet-stdlib/src/arrays.rs :: fn builtin_member ;; keep-pub
//@item crates/jrsonnet-stdlib/src/arrays.rs :: fn builtin_contains ;; keep-pub
//@item crates/jrsonnet-stdlib/src/arrays.rs :: fn builtin_find ;; keep-pub
//@item crates/jrsonnet-stdlib/src/arrays.rs :: fn builtin_count ;; keep-pub
//@item crates/jrsonnet-stdlib/src/arrays.rs :: fn builtin_remove_at ;; keep-pub
//@item crates/jrsonnet-stdlib/src/arrays.rs :: fn builtin_remove ;; keep-pub

#[cfg(kani)]
mod harness {
    use super::*;
    fn any_nums() -> ArrValue { let mut items = [Val::Num(0); 6]; let mut i = 0; while i < N { let v: u8 = kani::any(); kani::assume(v < 3); items[i] = Val::Num(v); i += 1; } ArrValue { items, n: N } }
    fn num(a: &ArrValue, i: usize) -> u8 { match a.items[i] { Val::Num(v) => v, _ => 99 } }

    #[kani::proof]
    #[kani::unwind(6)]
    fn h_member_find_count() {
        let a = any_nums(); let x: u8 = kani::any(); kani::assume(x < 3);
        let hits = [num(&a, 0) == x, num(&a, 1) == x, num(&a, 2) == x];
        let cnt = hits[0] as usize + hits[1] as usize + hits[2] as usize;
        assert!(builtin_member(IndexableVal::Arr(a), Val::Num(x)) == Ok(cnt > 0) && builtin_contains(IndexableVal::Arr(a), Val::Num(x)) == Ok(cnt > 0), "obligation: std.member / std.contains");
        assert!(builtin_count(a, Val::Num(x)) == Ok(cnt), "obligation: std.count = number of equal elements");
        match builtin_find(Val::Num(x), a) {
            Ok(v) => { assert!(v.len == cnt, "obligation: std.find returns one index per occurrence"); let mut k = 0; let mut i = 0; while i < N { if hits[i] { assert!(v.buf[k] == Some(i), "obligation: std.find indices ascending and exact"); k += 1; } i += 1; } }
            Err(_) => panic!("obligation: std.find on scalars cannot fail"),
        }
        kani::cover!(cnt == 2);
    }

    #[kani::proof]
    #[kani::unwind(9)]
    fn h_remove() {
        let a = any_nums(); let x: u8 = kani::any(); kani::assume(x < 3);
        let r = match builtin_remove(a, Val::Num(x)) { Ok(r) => r, Err(_) => panic!("obligation: std.remove cannot fail on scalars") };
        let first = if num(&a, 0) == x { Some(0) } else if num(&a, 1) == x { Some(1) } else if num(&a, 2) == x { Some(2) } else { None };
        match first {
            None => assert!(r == a, "obligation: std.remove of an absent element returns the array unchanged"),
            Some(p) => { assert!(r.n == N - 1, "obligation: std.remove removes exactly one element"); let mut i = 0; let mut j = 0; while i < N { if i != p { assert!(r.items[j] == a.items[i], "obligation: std.remove removes the FIRST occurrence and keeps order"); j += 1; } i += 1; } }
        }
        kani::cover!(first == Some(1));
    }

    #[kani::proof]
    #[kani::unwind(6)]
    fn h_any_all() {
        let mut items = [Val::Bool(false); 6]; let mut i = 0; while i < N { items[i] = Val::Bool(kani::any()); i += 1; }
        let n: usize = kani::any(); kani::assume(n <= N);
        let a = ArrValue { items, n };
        let mut any = false; let mut all = true; let mut i = 0; while i < n { if items[i] == Val::Bool(true) { any = true; } else { all = false; } i += 1; }
        assert!(builtin_any(a) == Ok(any) && builtin_all(a) == Ok(all), "obligation: std.any / std.all (empty array: false / true)");
        let mut bad = a; bad.items[0] = Val::Num(1); bad.n = 1;
        assert!(builtin_any(bad).is_err() && builtin_all(bad).is_err(), "obligation: non-boolean element is an error");
        kani::cover!(n == 0);
    }
}
