// Kani unit rowan_sink (C17): losslessness of the formatter's syntax tree.  The syntax-tree parser sees only the non-trivia token kinds
// (lib.rs parse: filter); the event sink (event.rs Sink::finish / token / skip_whitespace) re-attaches whitespace, comments AND the
// error-comment lexemes while replaying the parser's events.  Contract: every lexeme of the input ends up in the tree exactly once, in
// input order, with its own text -- so the tree's text is the input byte for byte -- whatever trivia kinds sit before, between and after
// the tokens.  The two sites (what is filtered out, what is re-attached) are both extracted, so a disagreement between them fails here.
#![allow(unused, dead_code, non_camel_case_types, static_mut_refs)]
use std::{mem, num::NonZeroUsize};

// ---------------------------------------------------------------- extracted real code: token kinds and the trivia classification
//@item crates/jrsonnet-rowan-parser/src/generated/syntax_kinds.rs :: enum SyntaxKind ;; std-derives keep-pub
use SyntaxKind::*;
pub struct TriviaKind; pub struct Trivia;
pub trait AstToken { fn can_cast(kind: SyntaxKind) -> bool; }
impl AstToken for Trivia {
//@item crates/jrsonnet-rowan-parser/src/generated/nodes.rs :: impl AstToken for Trivia > fn can_cast
}
impl TriviaKind {
//@item crates/jrsonnet-rowan-parser/src/generated/nodes.rs :: impl TriviaKind > fn can_cast
}

// ---------------------------------------------------------------- stand-ins (trusted): rowan's builder as a recorder, the parser as an event script
// fixed-capacity Vec (no allocator): push / pop / with_capacity / collect / into_iter().rev() + everything a slice offers through Deref
pub const VCAP: usize = 16;
pub struct Vec<T> { buf: [mem::MaybeUninit<T>; VCAP], len: usize }
impl<T> Vec<T> {
    pub fn new() -> Self { Vec { buf: unsafe { mem::MaybeUninit::<[mem::MaybeUninit<T>; VCAP]>::uninit().assume_init() }, len: 0 } }
    pub fn with_capacity(_c: usize) -> Self { Self::new() }
    pub fn push(&mut self, v: T) { assert!(self.len < VCAP, "stand-in Vec capacity exceeded"); self.buf[self.len].write(v); self.len += 1; }
    pub fn pop(&mut self) -> Option<T> { if self.len == 0 { None } else { self.len -= 1; Some(unsafe { self.buf[self.len].assume_init_read() }) } }
}
impl<T> std::ops::Deref for Vec<T> { type Target = [T]; fn deref(&self) -> &[T] { unsafe { std::slice::from_raw_parts(self.buf.as_ptr() as *const T, self.len) } } }
impl<T> std::ops::DerefMut for Vec<T> { fn deref_mut(&mut self) -> &mut [T] { unsafe { std::slice::from_raw_parts_mut(self.buf.as_mut_ptr() as *mut T, self.len) } } }
impl<T> FromIterator<T> for Vec<T> { fn from_iter<I: IntoIterator<Item = T>>(it: I) -> Self { let mut v = Vec::new(); for x in it { v.push(x); } v } }
pub struct VecIntoIter<T> { v: Vec<T>, lo: usize }
impl<T> Iterator for VecIntoIter<T> { type Item = T; fn next(&mut self) -> Option<T> { if self.lo < self.v.len { self.lo += 1; Some(unsafe { self.v.buf[self.lo - 1].assume_init_read() }) } else { None } } }
impl<T> DoubleEndedIterator for VecIntoIter<T> { fn next_back(&mut self) -> Option<T> { if self.lo < self.v.len { self.v.len -= 1; Some(unsafe { self.v.buf[self.v.len].assume_init_read() }) } else { None } } }
impl<T> IntoIterator for Vec<T> { type Item = T; type IntoIter = VecIntoIter<T>; fn into_iter(self) -> VecIntoIter<T> { VecIntoIter { v: self, lo: 0 } } }
macro_rules! vec { () => { Vec::new() }; ($($x:expr),+ $(,)?) => {{ let mut v = Vec::new(); $( v.push($x); )+ v }}; }

#[derive(Clone, Copy, Debug, PartialEq)] pub struct TextSize(pub u32);
impl From<u32> for TextSize { fn from(v: u32) -> Self { TextSize(v) } }
#[derive(Clone, Copy, Debug, PartialEq)] pub struct TextRange { s: TextSize, e: TextSize }
impl TextRange { pub fn new(s: TextSize, e: TextSize) -> Self { TextRange { s, e } } pub fn start(&self) -> TextSize { self.s } pub fn end(&self) -> TextSize { self.e } }
pub struct RawKind(pub u16);
pub trait Language { fn kind_to_raw(k: SyntaxKind) -> RawKind; }
pub struct JsonnetLanguage; impl Language for JsonnetLanguage { fn kind_to_raw(k: SyntaxKind) -> RawKind { RawKind(k as u16) } }
const MAXTOK: usize = 10;
#[derive(Clone)]
pub struct GreenNode { pub toks: [(usize, usize, u16); MAXTOK], pub n: usize, pub open: i32, pub nodes: u32, pub underflow: bool }
pub struct GreenNodeBuilder<'a> { g: GreenNode, _p: std::marker::PhantomData<&'a ()> }
impl GreenNodeBuilder<'static> {
    pub fn new() -> Self { GreenNodeBuilder { g: GreenNode { toks: [(0, 0, 0); MAXTOK], n: 0, open: 0, nodes: 0, underflow: false }, _p: std::marker::PhantomData } }
    pub fn start_node(&mut self, _k: RawKind) { self.g.open += 1; self.g.nodes += 1; }
    pub fn finish_node(&mut self) { self.g.open -= 1; if self.g.open < 0 { self.g.underflow = true; } }
    pub fn token(&mut self, k: RawKind, text: &str) { assert!(self.g.open > 0, "obligation: tokens are attached inside the root node"); if self.g.n < MAXTOK { self.g.toks[self.g.n] = (text.as_ptr() as usize, text.len(), k.0); } self.g.n += 1; }
    pub fn finish(self) -> GreenNode { self.g }
}
#[derive(Debug)] pub enum SyntaxError { Custom }
pub struct LocatedSyntaxError { pub error: SyntaxError, pub range: TextRange }
pub struct Parse { pub green_node: GreenNode, pub errors: Vec<LocatedSyntaxError> }
impl Parse { pub fn syntax(&self) -> GreenNode { self.green_node.clone() } }
pub struct SourceFile { pub syntax: GreenNode }
static mut SCRIPT: [(SyntaxKind, u32, u32); MAXTOK] = [(EOF, 0, 0); MAXTOK];
static mut NSCRIPT: usize = 0;
static mut PARSER_SAW: usize = 0;
const INPUT: &str = "0123456789abcdefghijklmnopqrstuvwxyz";
pub mod lex {
    use super::*;
//@item crates/jrsonnet-rowan-parser/src/lex.rs :: struct Lexeme ;; std-derives keep-pub
    /// the lexer's contract (unit lex_wrapper): lexemes tile the input
    pub fn lex(input: &str) -> Vec<Lexeme<'_>> { let mut v = Vec::with_capacity(MAXTOK); unsafe { let mut i = 0; while i < NSCRIPT { let (k, s, e) = SCRIPT[i]; v.push(Lexeme { kind: k, text: &input[s as usize..e as usize], range: TextRange::new(TextSize(s), TextSize(e)) }); i += 1; } } v }
}
use lex::Lexeme;
/// the parser's contract towards the sink: one Token event per kind it was given, inside one root node (plus one inner node around the second token)
pub struct Parser { kinds: Vec<SyntaxKind> }
impl Parser {
    pub fn new(kinds: Vec<SyntaxKind>) -> Self { Parser { kinds } }
    pub fn parse(self) -> Vec<Event> {
        unsafe { PARSER_SAW = self.kinds.len(); }
        let mut ev = Vec::with_capacity(16);
        ev.push(Event::Start { kind: SOURCE_FILE, forward_parent: None });
        let mut i = 0;
        while i < self.kinds.len() {
            if i == 1 { ev.push(Event::Start { kind: EXPR, forward_parent: None }); }
            ev.push(Event::Token { kind: self.kinds[i] });
            if i == 1 { ev.push(Event::Finish { wrapper: None, error: None }); }
            i += 1;
        }
        ev.push(Event::Finish { wrapper: None, error: None });
        ev
    }
}

// ---------------------------------------------------------------- extracted real code: the sink and the entry point
//@item crates/jrsonnet-rowan-parser/src/event.rs :: enum Event ;; keep-pub
//@item crates/jrsonnet-rowan-parser/src/event.rs :: struct Sink
impl<'i> Sink<'i> {
//@item crates/jrsonnet-rowan-parser/src/event.rs :: impl<'i> Sink<'i> > fn new
//@item crates/jrsonnet-rowan-parser/src/event.rs :: impl<'i> Sink<'i> > fn token
//@item crates/jrsonnet-rowan-parser/src/event.rs :: impl<'i> Sink<'i> > fn skip_whitespace
    pub fn run_skip_whitespace(&mut self) { self.skip_whitespace() }
}
/// the entry point with the sink replaced by a stand-in: only what parse() hands to the parser is observed here
pub mod entry {
    use super::{lex, AstToken, GreenNode, LocatedSyntaxError, Parse, Parser, SourceFile, Trivia, Vec, Event};
    pub struct Sink;
    impl Sink { pub fn new(_e: Vec<Event>, _l: &[lex::Lexeme<'_>]) -> Self { Sink } pub fn finish(self) -> Parse { Parse { green_node: super::GreenNodeBuilder::new().finish(), errors: Vec::new() } } }
//@item crates/jrsonnet-rowan-parser/src/lib.rs :: fn parse ;; keep-pub
}

#[cfg(kani)]
mod harness {
    use super::*;
    /// every token kind of the language (discriminants are dense, TOMBSTONE = 0 .. __LAST)
    fn any_kind() -> SyntaxKind { let d: u8 = kani::any(); kani::assume((d as u16) < SyntaxKind::__LAST as u16); assert!(mem::size_of::<SyntaxKind>() == 1); unsafe { mem::transmute::<u8, SyntaxKind>(d) } }   // (#[repr(u16)] is dropped by R1; < 256 variants)
    /// The two sites agree, for EVERY kind: a lexeme kind is withheld from the parser by parse() exactly when the sink re-attaches it
    /// by itself (skip_whitespace) -- otherwise the Token events and the lexemes drift apart and text is lost or duplicated.
    #[kani::proof] #[kani::unwind(5)]
    fn h_filter_matches_reattach() {
        let k = any_kind();
        unsafe { SCRIPT[0] = (k, 0, 3); SCRIPT[1] = (IDENT, 3, 4); NSCRIPT = 2; }
        let (tree, errors) = entry::parse(INPUT);
        let withheld = unsafe { PARSER_SAW } == 1;              // the IDENT is always passed on
        assert!(unsafe { PARSER_SAW } >= 1, "obligation: real tokens reach the parser");
        let lexemes = lex::lex(INPUT);
        let mut sink = Sink::new(Vec::new(), &lexemes);
        sink.builder.start_node(JsonnetLanguage::kind_to_raw(SOURCE_FILE));
        sink.run_skip_whitespace();
        let g = sink.builder.finish();
        assert!((g.n == 1) == withheld && g.n <= 1, "obligation: the sink re-attaches by itself exactly the kinds parse() withholds from the parser (whitespace, comments, error comments)");
        if g.n == 1 { let t = &INPUT[0..3]; assert!(g.toks[0] == (t.as_ptr() as usize, 3, k as u16), "obligation: a re-attached lexeme keeps its own text and kind"); }
        assert!(withheld == matches!(k, WHITESPACE | MULTI_LINE_COMMENT | SINGLE_LINE_HASH_COMMENT | SINGLE_LINE_SLASH_COMMENT | ERROR_COMMENT_TOO_SHORT | ERROR_COMMENT_UNTERMINATED), "obligation: exactly whitespace, the three comment forms and the two malformed-comment lexemes are trivia");
        mem::forget((tree, errors, lexemes));
        kani::cover!(k == ERROR_COMMENT_TOO_SHORT); kani::cover!(k == IDENT); kani::cover!(k == WHITESPACE);
    }
    /// skip_whitespace attaches the maximal run of trivia, in order, and stops at the first token; token() attaches exactly one lexeme
    #[kani::proof] #[kani::unwind(6)]
    fn h_skip_run() {
        let n_triv: usize = kani::any(); kani::assume(n_triv <= 3);
        let kinds = [WHITESPACE, ERROR_COMMENT_TOO_SHORT, SINGLE_LINE_HASH_COMMENT];
        let mut i = 0; while i < n_triv { unsafe { SCRIPT[i] = (kinds[i], i as u32, i as u32 + 1); } i += 1; }
        unsafe { SCRIPT[n_triv] = (IDENT, n_triv as u32, n_triv as u32 + 1); SCRIPT[n_triv + 1] = (WHITESPACE, n_triv as u32 + 1, n_triv as u32 + 2); NSCRIPT = n_triv + 2; }
        let lexemes = lex::lex(INPUT);
        let mut sink = Sink::new(Vec::new(), &lexemes);
        sink.builder.start_node(JsonnetLanguage::kind_to_raw(SOURCE_FILE));
        sink.run_skip_whitespace();
        sink.token(IDENT);
        sink.run_skip_whitespace();
        sink.run_skip_whitespace();
        let g = sink.builder.finish();
        assert!(g.n == n_triv + 2, "obligation: every lexeme attached exactly once (a repeated skip at the end adds nothing)");
        let mut j = 0; while j < n_triv + 2 { let (k, s, e) = unsafe { SCRIPT[j] }; let t = &INPUT[s as usize..e as usize]; assert!(g.toks[j] == (t.as_ptr() as usize, t.len(), k as u16), "obligation: input order, own text"); j += 1; }
        mem::forget(lexemes);
        kani::cover!(n_triv == 3); kani::cover!(n_triv == 0);
    }
}
