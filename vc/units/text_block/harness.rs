// Kani unit text_block (C06, C17, C04): the hand-written text-block (|||) scanner shared by both evaluator parsers.
#![allow(unused, dead_code)]
//@include fixed_string.rs

// ---------------------------------------------------------------- extracted real code
//@item crates/jrsonnet-lexer/src/string_block.rs :: enum StringBlockError ;; std-derives keep-pub
use StringBlockError::*;
//@item crates/jrsonnet-lexer/src/string_block.rs :: struct Context
//@item crates/jrsonnet-lexer/src/string_block.rs :: impl<'a> Context<'a>
//@item crates/jrsonnet-lexer/src/string_block.rs :: fn check_whitespace
//@item crates/jrsonnet-lexer/src/string_block.rs :: trait StrBlockLexCtx
//@item crates/jrsonnet-lexer/src/string_block.rs :: fn collect_lexed_str_block ;; keep-pub
//@item crates/jrsonnet-lexer/src/string_block.rs :: struct CollectStrBlock ;; keep-pub
//@item crates/jrsonnet-lexer/src/string_block.rs :: impl<'d> StrBlockLexCtx<'d> for CollectStrBlock<'d>
//@item crates/jrsonnet-lexer/src/string_block.rs :: fn lex_str_block

#[cfg(kani)]
mod harness {
    use super::*;
    /// A LISTED set of inputs (text after `|||`) with their meaning under the Jsonnet text-block rules, written by hand from
    /// the specification: blank lines are kept as empty lines (also before the first content line); the first content line
    /// fixes the indent; a line not starting with that indent must be the (optionally indented) terminator.
    /// (A symbolic 3-line input did not finish in 10 min: std's str searching dominates.)
    const OK_CASES: [(&str, &[&str]); 6] = [
        ("\n  a\n|||", &["a"]),
        ("\n\n  a\n|||", &["", "a"]),                       // leading blank line is content
        ("\n\n\n  a\n\n  b\n |||", &["", "", "a", "", "b"]),   // blank lines everywhere, terminator indented LESS than the block
        ("  \n  a\n  \tb\n|||", &["a", "\tb"]),           // spaces after |||, deeper indent is content
        ("\n\ta\n\tb\n |||", &["a", "b"]),                 // tab indent
        ("\n  a\n\n|||", &["a", ""]),                       // trailing blank line
    ];
    const ERR_CASES: [(&str, StringBlockError); 5] = [
        ("", UnexpectedEnd), (" x", MissingNewLine), ("\na\n|||", MissingIndent), ("\n  a\n b\n|||", MissingTermination), ("\n  a\n", UnexpectedEnd),
    ];
    #[kani::proof]
    #[kani::unwind(30)]
    fn h_text_block() {
        let mut t = 0;
        while t < 6 {
            let (input, want) = OK_CASES[t];
            match collect_lexed_str_block(input) {
                Ok(c) => {
                    assert!(c.lines.len == want.len(), "obligation: every line of the block, blank ones included, is collected");
                    let mut i = 0; while i < want.len() { assert!(c.lines.buf[i] == Some(want[i]), "obligation: line text is the source line without the block indent"); i += 1; }
                    assert!(!c.truncate, "obligation: no chomping without |||-");
                }
                Err(_) => panic!("obligation: a well-formed text block is accepted"),
            }
            t += 1;
        }
        let mut t = 0;
        while t < 5 { let (input, want) = ERR_CASES[t]; match collect_lexed_str_block(input) { Err(e) => assert!(e == want, "obligation: malformed text block is reported with the right error"), Ok(_) => panic!("obligation: a malformed text block is rejected") } t += 1; }
        match collect_lexed_str_block("-\n  a\n|||") { Ok(c) => assert!(c.truncate && c.lines.len == 1, "obligation: |||- sets the chomping flag"), Err(_) => panic!("obligation: |||- block accepted") }
        kani::cover!(true);
    }
}
