// Verus unit arr_views — index-translating array views (C08, C04).
// Executable text between //@begin / //@end is spliced from /repo on every run.
use vstd::prelude::*;
verus! {

// ---------------------------------------------------------------- stand-ins
// Element identity: a Jsonnet value is abstracted to an opaque identity.
pub struct Val { pub id: int }
pub struct ThunkVal { pub id: int }            // Thunk<Val>
pub struct Error { pub e: int }
pub type Result<T> = core::result::Result<T, Error>;

// ArrValue: opaque; `view()` is the sequence of element identities the
// property calls "the plainly constructed array with the same contents".
#[verifier::external_body]
pub struct ArrValue { _p: core::marker::PhantomData<u8> }

impl ArrValue {
    pub uninterp spec fn view(&self) -> Seq<int>;
    pub uninterp spec fn cheap(&self) -> bool;

    // Trait contract of ArrayLike, taken from the property:
    //   len == |view|; get(i): i>=len => Ok(None), i<len => Err or Some(view[i]);
    //   get_lazy(i): i>=len => None, else Some(thunk of view[i]);
    //   get_cheap(i): None, or Some(view[i]) with i<len.
    #[verifier::external_body]
    pub fn len(&self) -> (r: usize)
        ensures r as int == self.view().len(),
    { unimplemented!() }

    #[verifier::external_body]
    pub fn get(&self, index: usize) -> (r: Result<Option<Val>>)
        ensures
            index as int >= self.view().len() ==> r == Ok::<Option<Val>, Error>(None),
            (index as int) < self.view().len() ==> (r is Err || r == Ok::<Option<Val>, Error>(Some(Val { id: self.view()[index as int] }))),
    { unimplemented!() }

    #[verifier::external_body]
    pub fn get_lazy(&self, index: usize) -> (r: Option<ThunkVal>)
        ensures
            index as int >= self.view().len() ==> r == None::<ThunkVal>,
            (index as int) < self.view().len() ==> r == Some(ThunkVal { id: self.view()[index as int] }),
    { unimplemented!() }

    #[verifier::external_body]
    pub fn get_cheap(&self, index: usize) -> (r: Option<Val>)
        ensures
            index as int >= self.view().len() ==> r == None::<Val>,
            (index as int) < self.view().len() ==> (r == None::<Val> || r == Some(Val { id: self.view()[index as int] })),
            (index as int) < self.view().len() && self.cheap() ==> r == Some(Val { id: self.view()[index as int] }),
    { unimplemented!() }

    #[verifier::external_body]
    pub fn is_cheap(&self) -> (r: bool)
        ensures r == self.cheap(),
    { unimplemented!() }
}

// usize::div_ceil: std contract (mathematical ceiling division), ASSUMED.
pub assume_specification[ usize::div_ceil ](a: usize, b: usize) -> (r: usize)
    requires b != 0,
    ensures r as int == (a as int + b as int - 1) / (b as int);

// ---------------------------------------------------------------- spec helpers
pub open spec fn ceil_div(a: int, b: int) -> int { (a + b - 1) / b }

pub proof fn lemma_slice_idx(d: int, step: int, index: int)
    requires d > 0, step >= 1, 0 <= index < ceil_div(d, step),
    ensures step * index < d, step * index >= 0,
{
    let c = ceil_div(d, step);
    assert(c * step <= d + step - 1) by (nonlinear_arith)
        requires c == (d + step - 1) / step, step >= 1, d > 0;
    assert(step * index <= step * (c - 1)) by (nonlinear_arith)
        requires index <= c - 1, step >= 1;
    assert(step * (c - 1) == c * step - step) by (nonlinear_arith);
    assert(step * index >= 0) by (nonlinear_arith) requires step >= 1, index >= 0;
}

// ================================================================ SliceArray
pub struct SliceArray {
    pub inner: ArrValue,
    pub from: usize,
    pub to: usize,
    pub step: u32,
}

impl SliceArray {
    // representation invariant established by ArrValue::slice (unit arr_slice_ctor)
    pub open spec fn wf(&self) -> bool {
        self.from < self.to && self.to as int <= self.inner.view().len() && self.step >= 1
    }
    pub open spec fn vlen(&self) -> int { ceil_div(self.to - self.from, self.step as int) }
    // the plainly constructed array: inner[from], inner[from+step], ...
    pub open spec fn view(&self) -> Seq<int> {
        Seq::new(self.vlen() as nat, |i: int| self.inner.view()[self.from + self.step * i])
    }

    fn map_idx(&self, index: usize) -> (r: usize)
        requires self.wf(), (index as int) < self.vlen(),
        ensures r as int == self.from + self.step * index, (r as int) < self.to,
    //@body crates/jrsonnet-evaluator/src/arr/spec.rs :: impl SliceArray > fn map_idx ;; id=slice_map_idx
    //@sig fn map_idx(&self, index: usize) -> usize
    //@ghost slice_map_idx start
        proof { lemma_slice_idx(self.to - self.from, self.step as int, index as int); }
    //@endghost

    fn len(&self) -> (r: usize)
        requires self.wf(),
        ensures r as int == self.view().len(), r as int == self.vlen(),
    //@body crates/jrsonnet-evaluator/src/arr/spec.rs :: impl ArrayLike for SliceArray > fn len ;; id=slice_len
    //@sig fn len(&self) -> usize

    fn get(&self, index: usize) -> (r: Result<Option<Val>>)
        requires self.wf(),
        ensures
            index as int >= self.view().len() ==> r == Ok::<Option<Val>, Error>(None),
            (index as int) < self.view().len() ==> (r is Err || r == Ok::<Option<Val>, Error>(Some(Val { id: self.view()[index as int] }))),
    //@body crates/jrsonnet-evaluator/src/arr/spec.rs :: impl ArrayLike for SliceArray > fn get ;; id=slice_get
    //@sig fn get(&self, index: usize) -> Result<Option<Val>>

    fn get_lazy(&self, index: usize) -> (r: Option<ThunkVal>)
        requires self.wf(),
        ensures
            index as int >= self.view().len() ==> r == None::<ThunkVal>,
            (index as int) < self.view().len() ==> r == Some(ThunkVal { id: self.view()[index as int] }),
    //@body crates/jrsonnet-evaluator/src/arr/spec.rs :: impl ArrayLike for SliceArray > fn get_lazy ;; id=slice_get_lazy
    //@sig fn get_lazy(&self, index: usize) -> Option<Thunk<Val>>

    fn get_cheap(&self, index: usize) -> (r: Option<Val>)
        requires self.wf(),
        ensures
            index as int >= self.view().len() ==> r == None::<Val>,
            (index as int) < self.view().len() ==> (r == None::<Val> || r == Some(Val { id: self.view()[index as int] })),
            (index as int) < self.view().len() && self.inner.cheap() ==> r == Some(Val { id: self.view()[index as int] }),
    //@body crates/jrsonnet-evaluator/src/arr/spec.rs :: impl ArrayLike for SliceArray > fn get_cheap ;; id=slice_get_cheap
    //@sig fn get_cheap(&self, index: usize) -> Option<Val>

    fn is_cheap(&self) -> (r: bool)
        ensures r == self.inner.cheap(),
    //@body crates/jrsonnet-evaluator/src/arr/spec.rs :: impl ArrayLike for SliceArray > fn is_cheap ;; id=slice_is_cheap
    //@sig fn is_cheap(&self) -> bool
}

// ================================================================ ReverseArray
pub struct ReverseArray(pub ArrValue);
impl ReverseArray {
    pub open spec fn view(&self) -> Seq<int> {
        Seq::new(self.0.view().len(), |i: int| self.0.view()[self.0.view().len() - 1 - i])
    }

    fn len(&self) -> (r: usize)
        ensures r as int == self.view().len(),
    //@body crates/jrsonnet-evaluator/src/arr/spec.rs :: impl ArrayLike for ReverseArray > fn len ;; id=rev_len
    //@sig fn len(&self) -> usize

    fn get(&self, index: usize) -> (r: Result<Option<Val>>)
        requires true,
        ensures
            index as int >= self.view().len() ==> r == Ok::<Option<Val>, Error>(None),
            (index as int) < self.view().len() ==> (r is Err || r == Ok::<Option<Val>, Error>(Some(Val { id: self.view()[index as int] }))),
    //@body crates/jrsonnet-evaluator/src/arr/spec.rs :: impl ArrayLike for ReverseArray > fn get ;; id=rev_get
    //@sig fn get(&self, index: usize) -> Result<Option<Val>>

    fn get_lazy(&self, index: usize) -> (r: Option<ThunkVal>)
        requires true,
        ensures
            index as int >= self.view().len() ==> r == None::<ThunkVal>,
            (index as int) < self.view().len() ==> r == Some(ThunkVal { id: self.view()[index as int] }),
    //@body crates/jrsonnet-evaluator/src/arr/spec.rs :: impl ArrayLike for ReverseArray > fn get_lazy ;; id=rev_get_lazy
    //@sig fn get_lazy(&self, index: usize) -> Option<Thunk<Val>>

    fn get_cheap(&self, index: usize) -> (r: Option<Val>)
        requires true,
        ensures
            index as int >= self.view().len() ==> r == None::<Val>,
            (index as int) < self.view().len() ==> (r == None::<Val> || r == Some(Val { id: self.view()[index as int] })),
            (index as int) < self.view().len() && self.0.cheap() ==> r == Some(Val { id: self.view()[index as int] }),
    //@body crates/jrsonnet-evaluator/src/arr/spec.rs :: impl ArrayLike for ReverseArray > fn get_cheap ;; id=rev_get_cheap
    //@sig fn get_cheap(&self, index: usize) -> Option<Val>

    fn is_cheap(&self) -> (r: bool)
        ensures r == self.0.cheap(),
    //@body crates/jrsonnet-evaluator/src/arr/spec.rs :: impl ArrayLike for ReverseArray > fn is_cheap ;; id=rev_is_cheap
    //@sig fn is_cheap(&self) -> bool
}

// ================================================================ RepeatedArray
pub struct RepeatedArray {
    pub data: ArrValue,
    pub repeats: usize,
    pub total_len: usize,
}
impl RepeatedArray {
    pub open spec fn wf(&self) -> bool {
        self.total_len as int == self.data.view().len() * self.repeats
    }
    // data ++ data ++ ... (repeats times): element i is data[i mod |data|]
    pub open spec fn view(&self) -> Seq<int> {
        Seq::new((self.data.view().len() * self.repeats) as nat, |i: int| self.data.view()[i % (self.data.view().len() as int)])
    }

    fn new(data: ArrValue, repeats: usize) -> (r: Option<RepeatedArray>)
        ensures
            data.view().len() * repeats <= usize::MAX ==> r is Some,
            r is Some ==> r->0.wf() && r->0.data == data && r->0.repeats == repeats,
    //@body crates/jrsonnet-evaluator/src/arr/spec.rs :: impl RepeatedArray > fn new ;; id=rep_new
    //@sig fn new(data: ArrValue, repeats: usize) -> Option<Self>

    fn len(&self) -> (r: usize)
        requires self.wf(),
        ensures r as int == self.view().len(),
    //@body crates/jrsonnet-evaluator/src/arr/spec.rs :: impl ArrayLike for RepeatedArray > fn len ;; id=rep_len
    //@sig fn len(&self) -> usize

    fn get(&self, index: usize) -> (r: Result<Option<Val>>)
        requires self.wf(),
        ensures
            index as int >= self.view().len() ==> r == Ok::<Option<Val>, Error>(None),
            (index as int) < self.view().len() ==> (r is Err || r == Ok::<Option<Val>, Error>(Some(Val { id: self.view()[index as int] }))),
    //@body crates/jrsonnet-evaluator/src/arr/spec.rs :: impl ArrayLike for RepeatedArray > fn get ;; id=rep_get
    //@sig fn get(&self, index: usize) -> Result<Option<Val>>

    fn get_lazy(&self, index: usize) -> (r: Option<ThunkVal>)
        requires self.wf(),
        ensures
            index as int >= self.view().len() ==> r == None::<ThunkVal>,
            (index as int) < self.view().len() ==> r == Some(ThunkVal { id: self.view()[index as int] }),
    //@body crates/jrsonnet-evaluator/src/arr/spec.rs :: impl ArrayLike for RepeatedArray > fn get_lazy ;; id=rep_get_lazy
    //@sig fn get_lazy(&self, index: usize) -> Option<Thunk<Val>>

    fn get_cheap(&self, index: usize) -> (r: Option<Val>)
        requires self.wf(),
        ensures
            index as int >= self.view().len() ==> r == None::<Val>,
            (index as int) < self.view().len() ==> (r == None::<Val> || r == Some(Val { id: self.view()[index as int] })),
            (index as int) < self.view().len() && self.data.cheap() ==> r == Some(Val { id: self.view()[index as int] }),
    //@body crates/jrsonnet-evaluator/src/arr/spec.rs :: impl ArrayLike for RepeatedArray > fn get_cheap ;; id=rep_get_cheap
    //@sig fn get_cheap(&self, index: usize) -> Option<Val>

    fn is_cheap(&self) -> (r: bool)
        ensures r == self.data.cheap(),
    //@body crates/jrsonnet-evaluator/src/arr/spec.rs :: impl ArrayLike for RepeatedArray > fn is_cheap ;; id=rep_is_cheap
    //@sig fn is_cheap(&self) -> bool
}

// ================================================================ ExtendedArray
pub struct ExtendedArray {
    pub a: ArrValue,
    pub b: ArrValue,
    pub split: usize,
    pub len: usize,
}
impl ExtendedArray {
    pub open spec fn wf(&self) -> bool {
        self.split as int == self.a.view().len() && self.len as int == self.a.view().len() + self.b.view().len()
    }
    pub open spec fn view(&self) -> Seq<int> { self.a.view() + self.b.view() }

    fn new(a: ArrValue, b: ArrValue) -> (r: ExtendedArray)
        requires a.view().len() + b.view().len() <= usize::MAX,   // else: documented panic "too large array value"
        ensures r.wf(), r.a == a, r.b == b,
    //@body crates/jrsonnet-evaluator/src/arr/spec.rs :: impl ExtendedArray > fn new ;; id=ext_new
    //@sig fn new(a: ArrValue, b: ArrValue) -> Self

    fn len(&self) -> (r: usize)
        requires self.wf(),
        ensures r as int == self.view().len(),
    //@body crates/jrsonnet-evaluator/src/arr/spec.rs :: impl ArrayLike for ExtendedArray > fn len ;; id=ext_len
    //@sig fn len(&self) -> usize

    fn get(&self, index: usize) -> (r: Result<Option<Val>>)
        requires self.wf(),
        ensures
            index as int >= self.view().len() ==> r == Ok::<Option<Val>, Error>(None),
            (index as int) < self.view().len() ==> (r is Err || r == Ok::<Option<Val>, Error>(Some(Val { id: self.view()[index as int] }))),
    //@body crates/jrsonnet-evaluator/src/arr/spec.rs :: impl ArrayLike for ExtendedArray > fn get ;; id=ext_get
    //@sig fn get(&self, index: usize) -> Result<Option<Val>>

    fn get_lazy(&self, index: usize) -> (r: Option<ThunkVal>)
        requires self.wf(),
        ensures
            index as int >= self.view().len() ==> r == None::<ThunkVal>,
            (index as int) < self.view().len() ==> r == Some(ThunkVal { id: self.view()[index as int] }),
    //@body crates/jrsonnet-evaluator/src/arr/spec.rs :: impl ArrayLike for ExtendedArray > fn get_lazy ;; id=ext_get_lazy
    //@sig fn get_lazy(&self, index: usize) -> Option<Thunk<Val>>

    fn get_cheap(&self, index: usize) -> (r: Option<Val>)
        requires self.wf(),
        ensures
            index as int >= self.view().len() ==> r == None::<Val>,
            (index as int) < self.view().len() ==> (r == None::<Val> || r == Some(Val { id: self.view()[index as int] })),
            (index as int) < self.view().len() && (self.a.cheap() && self.b.cheap()) ==> r == Some(Val { id: self.view()[index as int] }),
    //@body crates/jrsonnet-evaluator/src/arr/spec.rs :: impl ArrayLike for ExtendedArray > fn get_cheap ;; id=ext_get_cheap
    //@sig fn get_cheap(&self, index: usize) -> Option<Val>

    fn is_cheap(&self) -> (r: bool)
        ensures r == (self.a.cheap() && self.b.cheap()),
    //@body crates/jrsonnet-evaluator/src/arr/spec.rs :: impl ArrayLike for ExtendedArray > fn is_cheap ;; id=ext_is_cheap
    //@sig fn is_cheap(&self) -> bool
}

} // verus!
fn main() {}
