// Kani unit arr_extended (C08, C04): ArrValue::extended -- the representation choice of `a + b` on arrays
// (return an operand, link, copy cheap values, copy lazy values) always denotes a ++ b.
#![allow(unused, dead_code)]

// ---------------------------------------------------------------- stand-ins (trusted)
#[derive(Debug, Clone, Copy, PartialEq, Eq)]
pub struct Val(pub u16);                    // element identity: tag*256 + index
#[derive(Debug, Clone, Copy, PartialEq, Eq)]
pub struct Thunk<T> { pub id: u16, _p: std::marker::PhantomData<T> }
pub const VC: usize = 4;
#[derive(Debug, Clone, Copy, PartialEq, Eq)]
pub struct Vec<T: Copy> { pub buf: [Option<T>; VC], pub len: usize }
impl<T: Copy> Vec<T> {
    pub fn with_capacity(c: usize) -> Self { assert!(c <= VC, "harness: copy branch reached with more than 4 elements"); Vec { buf: [None; VC], len: 0 } }
    pub fn extend(&mut self, it: impl Iterator<Item = T>) { for x in it { assert!(self.len < VC); self.buf[self.len] = Some(x); self.len += 1; } }
}
#[derive(Debug, Clone, Copy, PartialEq, Eq)]
pub enum Repr { Base { tag: u8 }, Linked { a_tag: u8, b_tag: u8, split: usize, len: usize }, Eager(Vec<Val>), Lazy(Vec<Thunk<Val>>) }
#[derive(Debug, Clone, Copy, PartialEq, Eq)]
pub struct ArrValue { pub len: usize, pub cheap: bool, pub repr: Repr }
pub struct CheapIter { tag: u8, i: usize, n: usize }
impl Iterator for CheapIter { type Item = Val; fn next(&mut self) -> Option<Val> { if self.i < self.n { self.i += 1; Some(Val(self.tag as u16 * 256 + (self.i - 1) as u16)) } else { None } } }
impl ExactSizeIterator for CheapIter { fn len(&self) -> usize { self.n - self.i } }
pub struct LazyIter { tag: u8, i: usize, n: usize }
impl Iterator for LazyIter { type Item = Thunk<Val>; fn next(&mut self) -> Option<Thunk<Val>> { if self.i < self.n { self.i += 1; Some(Thunk { id: self.tag as u16 * 256 + (self.i - 1) as u16, _p: std::marker::PhantomData }) } else { None } } }
pub trait IntoArr { fn into_arr(self) -> ArrValue; }
impl IntoArr for ExtendedArray { fn into_arr(self) -> ArrValue { let (Repr::Base { tag: a_tag }, Repr::Base { tag: b_tag }) = (self.a.repr, self.b.repr) else { panic!() }; ArrValue { len: self.len, cheap: false, repr: Repr::Linked { a_tag, b_tag, split: self.split, len: self.len } } } }
impl ArrValue {
    fn tag(&self) -> u8 { match self.repr { Repr::Base { tag } => tag, _ => panic!() } }
    pub fn len(&self) -> usize { self.len }
    pub fn is_empty(&self) -> bool { self.len == 0 }
    pub fn is_cheap(&self) -> bool { self.cheap }
    pub fn iter_cheap(&self) -> Option<CheapIter> { if self.cheap { Some(CheapIter { tag: self.tag(), i: 0, n: self.len }) } else { None } }
    pub fn iter_lazy(&self) -> LazyIter { LazyIter { tag: self.tag(), i: 0, n: self.len } }
    pub fn new<T: IntoArr>(v: T) -> Self { v.into_arr() }
    pub fn eager(v: Vec<Val>) -> Self { ArrValue { len: v.len, cheap: true, repr: Repr::Eager(v) } }
    pub fn lazy(v: Vec<Thunk<Val>>) -> Self { ArrValue { len: v.len, cheap: false, repr: Repr::Lazy(v) } }
}

// ---------------------------------------------------------------- extracted real code
//@item crates/jrsonnet-evaluator/src/arr/spec.rs :: struct ExtendedArray ;; keep-pub
//@item crates/jrsonnet-evaluator/src/arr/spec.rs :: impl ExtendedArray ;; keep-pub
impl ArrValue {
//@item crates/jrsonnet-evaluator/src/arr/mod.rs :: impl ArrValue > fn extended ;; keep-pub
}

#[cfg(kani)]
mod harness {
    use super::*;
    /// for all operand lengths on both sides of the linking threshold (copy branches exercised up to 4 elements in
    /// total), cheap or not: the result has length |a|+|b| and element i is a[i] for i < |a|, b[i-|a|] otherwise
    #[kani::proof]
    #[kani::unwind(7)]
    fn h_extended() {
        let la: usize = kani::any(); let lb: usize = kani::any();
        kani::assume(la <= (1usize << 62) && lb <= (1usize << 62));
        kani::assume(la + lb > 1000 || la + lb <= 4);
        let a = ArrValue { len: la, cheap: kani::any(), repr: Repr::Base { tag: 1 } };
        let b = ArrValue { len: lb, cheap: kani::any(), repr: Repr::Base { tag: 2 } };
        let r = ArrValue::extended(a, b);
        assert!(r.len == la + lb, "obligation: length of a + b is |a| + |b|");
        let elem = |i: usize| -> u16 { if i < la { 256 + i as u16 } else { 512 + (i - la) as u16 } };
        match r.repr {
            Repr::Base { tag } => assert!((tag == 1 && lb == 0) || (tag == 2 && la == 0), "obligation: an operand is returned only when the other is empty"),
            Repr::Linked { a_tag, b_tag, split, len } => assert!(a_tag == 1 && b_tag == 2 && split == la && len == la + lb, "obligation: linked view = a then b, split at |a| (precondition of arr_views::ExtendedArray)"),
            Repr::Eager(v) => { let mut i = 0; while i < v.len { assert!(v.buf[i] == Some(Val(elem(i))), "obligation: copied elements are a's then b's, in order"); i += 1; } }
            Repr::Lazy(v) => { let mut i = 0; while i < v.len { assert!(v.buf[i].map(|t| t.id) == Some(elem(i)), "obligation: copied lazy elements are a's then b's, in order"); i += 1; } }
        }
        kani::cover!(matches!(r.repr, Repr::Eager(_)) && la == 2 && lb == 2);
        kani::cover!(matches!(r.repr, Repr::Linked { .. }) && la == 1000 && lb == 1);
        kani::cover!(matches!(r.repr, Repr::Lazy(_)));
    }
}
