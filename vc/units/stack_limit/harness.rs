// Kani unit stack_limit (C04, C16): frame counter and limit guards of stack.rs.
#![allow(unused, dead_code)]
use std::{cell::Cell, marker::PhantomData};

// ---------------------------------------------------------------- stand-ins (trusted)
pub enum ErrorKind { StackOverflow }
pub struct Error(pub ErrorKind);
impl From<ErrorKind> for Error { fn from(e: ErrorKind) -> Self { Error(e) } }
// expansion of `const_tls!` (non-nightly arm of stack.rs), written out by hand
thread_local! {
    static STACK_LIMIT: StackLimit = const { StackLimit { max_stack_size: Cell::new(200), current_depth: Cell::new(0) } };
}

// ---------------------------------------------------------------- extracted real code
//@item crates/jrsonnet-evaluator/src/stack.rs :: struct StackLimit
//@item crates/jrsonnet-evaluator/src/stack.rs :: struct StackOverflowError ;; keep-pub
//@item crates/jrsonnet-evaluator/src/stack.rs :: impl From<StackOverflowError> for ErrorKind
//@item crates/jrsonnet-evaluator/src/stack.rs :: impl From<StackOverflowError> for Error
//@item crates/jrsonnet-evaluator/src/stack.rs :: struct StackDepthGuard ;; keep-pub
//@item crates/jrsonnet-evaluator/src/stack.rs :: impl Drop for StackDepthGuard
//@item crates/jrsonnet-evaluator/src/stack.rs :: fn check_depth ;; keep-pub
//@item crates/jrsonnet-evaluator/src/stack.rs :: struct StackDepthLimitOverrideGuard ;; keep-pub
//@item crates/jrsonnet-evaluator/src/stack.rs :: impl Drop for StackDepthLimitOverrideGuard
//@item crates/jrsonnet-evaluator/src/stack.rs :: fn limit_stack_depth ;; keep-pub
//@item crates/jrsonnet-evaluator/src/stack.rs :: fn set_stack_depth_limit ;; keep-pub

#[cfg(kani)]
mod harness {
    use super::*;
    fn depth() -> usize { STACK_LIMIT.with(|l| l.current_depth.get()) }
    fn max() -> usize { STACK_LIMIT.with(|l| l.max_stack_size.get()) }
    fn set(d: usize, m: usize) { STACK_LIMIT.with(|l| { l.current_depth.set(d); l.max_stack_size.set(m); }) }

    /// one frame: below the limit => Ok, depth+1, and the guard gives the frame back on drop;
    /// at the limit => Err and the counter is left untouched (an error must not leak a frame)
    #[kani::proof]
    fn h_check_depth() {
        let d: usize = kani::any(); let m: usize = kani::any();
        kani::assume(d <= m);                       // invariant: depth never exceeds the limit in force
        set(d, m);
        match check_depth() {
            Ok(g) => {
                assert!(d < m, "obligation: a frame is granted only below the limit");
                assert!(depth() == d + 1 && max() == m, "obligation: granted frame is counted exactly once");
                drop(g);
                assert!(depth() == d && max() == m, "obligation: dropping the guard returns exactly that frame");
            }
            Err(_) => {
                assert!(d >= m, "obligation: recursion below the limit succeeds");
                assert!(depth() == d && max() == m, "obligation: a stack-overflow error leaves the frame counter unchanged");
            }
        }
        kani::cover!(d == m);
        kani::cover!(d < m);
    }

    /// limit override: the new limit is relative to the current depth and the old limit comes back on drop
    #[kani::proof]
    fn h_limit_guard() {
        let d: usize = kani::any(); let m: usize = kani::any(); let k: usize = kani::any();
        kani::assume(d <= m && k <= u32::MAX as usize && d <= u32::MAX as usize);   // limits come from a CLI/C-API unsigned
        set(d, m);
        let g = limit_stack_depth(k);
        assert!(max() == d + k && depth() == d, "obligation: limit is counted from the current frame");
        drop(g);
        assert!(max() == m && depth() == d, "obligation: the previous limit is restored");
        set_stack_depth_limit(k);
        assert!(max() == d + k && depth() == d, "obligation: unguarded limit stays in force");
        kani::cover!(k == 0);
    }

    /// history: runaway recursion up to the limit, overflow errors, then full unwinding: the thread state is the
    /// initial state again and a recursion of depth exactly `limit` fits (same thread evaluates further programs normally)
    #[kani::proof]
    #[kani::unwind(8)]
    fn h_history() {
        let m: usize = kani::any(); kani::assume(m <= 3);
        set(0, m);
        {
            let mut guards: [Option<StackDepthGuard>; 6] = [None, None, None, None, None, None];
            let mut errs = 0; let mut i = 0;
            while i < 6 { match check_depth() { Ok(g) => guards[i] = Some(g), Err(_) => errs += 1 } i += 1; }
            assert!(errs == 6 - m && depth() == m, "obligation: exactly `limit` nested frames fit, every further one overflows");
        } // all guards dropped here (LIFO array drop)
        assert!(depth() == 0 && max() == m, "obligation: after errors the thread-local state is the initial state");
        let mut ok = 0; let mut gs: [Option<StackDepthGuard>; 3] = [None, None, None];
        let mut i = 0; while i < m { if let Ok(g) = check_depth() { gs[i] = Some(g); ok += 1; } i += 1; }
        assert!(ok == m, "obligation: recursion up to the limit still succeeds after earlier overflow errors");
        kani::cover!(m == 3);
    }
}
