// Kani unit str_slice (C11, C08, C04): code-point slicing of strings: IndexableVal::slice (string branch) and std.substr.
#![allow(unused, dead_code)]
use std::num::NonZeroU32;
//@include fixed_string.rs
impl std::iter::FromIterator<char> for String { fn from_iter<I: IntoIterator<Item = char>>(it: I) -> Self { let mut s = String::new(); for c in it { s.push(c); } s } }

// ---------------------------------------------------------------- stand-ins (trusted)
#[derive(Debug, Clone, Copy)]
pub struct IStr { pub b: [u8; 16], pub n: usize }
impl IStr { pub fn as_str(&self) -> &str { unsafe { std::str::from_utf8_unchecked(&self.b[..self.n]) } } pub fn is_empty(&self) -> bool { self.n == 0 } }
impl std::ops::Deref for IStr { type Target = str; fn deref(&self) -> &str { self.as_str() } }
impl From<String> for IStr { fn from(s: String) -> Self { let mut b = [0u8; 16]; let mut i = 0; while i < s.len() { b[i] = s.as_bytes()[i]; i += 1; } IStr { b, n: s.len() } } }
impl From<&str> for IStr { fn from(s: &str) -> Self { let mut b = [0u8; 16]; let mut i = 0; while i < s.len() { b[i] = s.as_bytes()[i]; i += 1; } IStr { b, n: s.len() } } }
#[derive(Debug, Clone, Copy)]
pub struct ArrValue;
impl ArrValue { pub fn slice(self, _i: Option<i32>, _e: Option<i32>, _s: Option<NonZeroU32>) -> Self { self } pub fn is_empty(&self) -> bool { true } pub fn chars(_c: std::str::Chars<'_>) -> Self { ArrValue } }
pub struct Error;
pub type Result<T> = std::result::Result<T, Error>;
/// BoundedUsize<1, i32::MAX> as produced by the typed conversion (unit num_builtins)
#[derive(Debug, Clone, Copy)]
pub struct BoundedUsize<const MIN: usize, const MAX: usize>(pub usize);
impl<const MIN: usize, const MAX: usize> BoundedUsize<MIN, MAX> { pub fn value(self) -> usize { self.0 } }
impl<const MIN: usize, const MAX: usize> std::ops::Deref for BoundedUsize<MIN, MAX> { type Target = usize; fn deref(&self) -> &usize { &self.0 } }

// ---------------------------------------------------------------- extracted real code
//@item crates/jrsonnet-evaluator/src/val.rs :: enum IndexableVal ;; keep-pub
//@item crates/jrsonnet-evaluator/src/val.rs :: impl IndexableVal ;; keep-pub
//@item crates/jrsonnet-stdlib/src/strings.rs :: fn builtin_substr ;; keep-pub

#[cfg(kani)]
mod harness {
    use super::*;
    /// LISTED strings with their per-character byte offsets (symbolic strings did not finish in 10 min: char decoding dominates)
    const STRS: [(&str, [usize; 4], usize); 4] = [("", [0, 0, 0, 0], 0), ("a", [0, 1, 1, 1], 1), ("aé", [0, 1, 3, 3], 2), ("é😀a", [0, 2, 6, 7], 3)];
    fn norm(pos: Option<i32>, len: usize, default: usize) -> usize { match pos { None => default, Some(v) if v < 0 => { let back = (-(v as i64)) as usize; if back >= len { 0 } else { len - back } } Some(v) => if (v as usize) < len { v as usize } else { len } } }
    fn check_slice(t: usize, index: Option<i32>, end: Option<i32>, step: usize) {
        let (txt, starts, n) = STRS[t];
        let r = match IndexableVal::Str(IStr::from(txt)).slice(index, end, Some(BoundedUsize(step))) { Ok(IndexableVal::Str(r)) => r, _ => panic!("obligation: slicing a string yields a string") };
        let (f, e) = (norm(index, n, 0), norm(end, n, n));
        let b = txt.as_bytes(); let mut want = [0u8; 16]; let mut wn = 0; let mut i = f;
        while i < e { let mut j = starts[i]; while j < starts[i + 1] { want[wn] = b[j]; wn += 1; j += 1; } i += step; }
        assert!(r.n == wn, "obligation: string slice selects code points index..end by step");
        let mut k = 0; while k < wn { assert!(r.b[k] == want[k], "obligation: sliced characters are copied whole, in order"); k += 1; }
    }
    /// s[index:end:step] on strings counts CODE POINTS (Python-style negative indices, clamping), never bytes
    #[kani::proof]
    #[kani::unwind(12)]
    fn h_str_slice() {
        let mut t = 0;
        while t < 4 {
            check_slice(t, None, None, 1); check_slice(t, Some(1), None, 1); check_slice(t, None, Some(2), 1); check_slice(t, Some(-1), None, 1); check_slice(t, Some(-2), Some(-1), 1);
            check_slice(t, Some(0), Some(9), 2); check_slice(t, Some(-9), Some(1), 1); check_slice(t, Some(2), Some(1), 1);
            t += 1;
        }
        kani::cover!(true);
    }
    /// std.substr(str, from, len): len code points starting at code point `from`; beyond the end clamps
    #[kani::proof]
    #[kani::unwind(12)]
    fn h_substr() {
        let mut t = 0;
        while t < 4 {
            let (txt, starts, n) = STRS[t];
            let mut from = 0;
            while from <= 3 {
                let mut len = 0;
                while len <= 3 {
                    let r = builtin_substr(IStr::from(txt), from, len);
                    let f = if from < n { from } else { n }; let e = if from + len < n { from + len } else { n };
                    let (bs, be) = (starts[f], starts[e]);
                    assert!(r.len() == be - bs, "obligation: std.substr counts code points and clamps at the end");
                    let mut k = 0; while k < be - bs { assert!(r.as_bytes()[k] == txt.as_bytes()[bs + k], "obligation: std.substr copies whole characters"); k += 1; }
                    len += 1;
                }
                from += 1;
            }
            t += 1;
        }
        kani::cover!(true);
    }
}
