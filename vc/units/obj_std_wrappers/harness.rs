// Kani unit obj_std_wrappers (C13, C02, C04): the thin std wrappers std.objectFields*/Values*/KeysValues*/Has*/RemoveKey,
// std.type / std.is*, std.xor / std.xnor -- each must select the right variant / visibility flag of the object API.
#![allow(unused, dead_code, static_mut_refs)]

// ---------------------------------------------------------------- stand-ins (trusted): the object API as a call recorder
pub type IStr = &'static str;
#[derive(Debug, Clone, Copy, PartialEq, Eq)]
pub enum Call { FieldsEx(bool), ValuesEx(bool), KeyValuesEx(bool), HasEx(IStr, bool), Has(IStr), HasAll(IStr), None }
static mut LAST: Call = Call::None;
#[derive(Debug, Clone, Copy, PartialEq, Eq)]
pub struct ObjValue;
#[derive(Debug, Clone, Copy, PartialEq, Eq)]
pub struct ArrValue(pub Call);
#[derive(Debug, Clone, Copy, PartialEq, Eq)]
pub struct FuncVal;
#[derive(Debug, Clone, Copy, PartialEq, Eq)]
pub enum ValType { Bool, Null, Str, Num, Arr, Obj, Func }
impl ValType { pub const fn name(&self) -> &'static str { match self { ValType::Bool => "boolean", ValType::Null => "null", ValType::Str => "string", ValType::Num => "number", ValType::Arr => "array", ValType::Obj => "object", ValType::Func => "function" } } }   // same table as jrsonnet-types
#[derive(Debug, Clone, Copy, PartialEq)]
pub enum Val { Bool(bool), Null, Str(IStr), Num(f64), Arr(ArrValue), Obj(ObjValue), Func(FuncVal) }
impl Val {
    pub fn string(s: IStr) -> Val { Val::Str(s) }
}
pub struct FieldVec(pub Call);
pub struct FieldIter { done: bool }
impl Iterator for FieldIter { type Item = IStr; fn next(&mut self) -> Option<IStr> { if self.done { None } else { self.done = true; Some("f") } } }
impl FieldVec { pub fn into_iter(self) -> FieldIter { FieldIter { done: false } } }
impl ObjValue {
    pub fn fields_ex(&self, hidden: bool) -> FieldVec { unsafe { LAST = Call::FieldsEx(hidden); } FieldVec(Call::FieldsEx(hidden)) }
    pub fn values_ex(&self, hidden: bool) -> ArrValue { ArrValue(Call::ValuesEx(hidden)) }
    pub fn key_values_ex(&self, hidden: bool) -> ArrValue { ArrValue(Call::KeyValuesEx(hidden)) }
    pub fn has_field_ex(&self, f: IStr, hidden: bool) -> bool { unsafe { LAST = Call::HasEx(f, hidden); } true }
    pub fn has_field(&self, f: IStr) -> bool { unsafe { LAST = Call::Has(f); } true }
    pub fn has_field_include_hidden(&self, f: IStr) -> bool { unsafe { LAST = Call::HasAll(f); } true }
}
pub struct FxHashSet { pub key: Option<IStr> }
impl FxHashSet { pub fn with_capacity(_n: usize) -> Self { FxHashSet { key: None } } pub fn insert(&mut self, k: IStr) -> bool { self.key = Some(k); true } }
static mut BUILT: (bool, Option<IStr>) = (false, None);
pub struct ObjValueBuilder { sup: bool, omit: Option<IStr> }
impl ObjValueBuilder {
    pub fn new() -> Self { ObjValueBuilder { sup: false, omit: None } }
    pub fn with_super(&mut self, _o: ObjValue) -> &mut Self { assert!(self.omit.is_none(), "obligation: the removed-key layer goes ABOVE the object's layers"); self.sup = true; self }
    pub fn with_fields_omitted(&mut self, s: FxHashSet) { self.omit = s.key; }
    pub fn build(self) -> ObjValue { unsafe { BUILT = (self.sup, self.omit); } ObjValue }
}

// ---------------------------------------------------------------- extracted real code
//@item crates/jrsonnet-stdlib/src/objects.rs :: fn builtin_object_fields_ex ;; keep-pub
//@item crates/jrsonnet-stdlib/src/objects.rs :: fn builtin_object_fields ;; keep-pub
//@item crates/jrsonnet-stdlib/src/objects.rs :: fn builtin_object_fields_all ;; keep-pub
//@item crates/jrsonnet-stdlib/src/objects.rs :: fn builtin_object_values_ex ;; keep-pub
//@item crates/jrsonnet-stdlib/src/objects.rs :: fn builtin_object_values ;; keep-pub
//@item crates/jrsonnet-stdlib/src/objects.rs :: fn builtin_object_values_all ;; keep-pub
//@item crates/jrsonnet-stdlib/src/objects.rs :: fn builtin_object_keys_values_ex ;; keep-pub
//@item crates/jrsonnet-stdlib/src/objects.rs :: fn builtin_object_keys_values ;; keep-pub
//@item crates/jrsonnet-stdlib/src/objects.rs :: fn builtin_object_keys_values_all ;; keep-pub
//@item crates/jrsonnet-stdlib/src/objects.rs :: fn builtin_object_has_ex ;; keep-pub
//@item crates/jrsonnet-stdlib/src/objects.rs :: fn builtin_object_has ;; keep-pub
//@item crates/jrsonnet-stdlib/src/objects.rs :: fn builtin_object_has_all ;; keep-pub
//@item crates/jrsonnet-stdlib/src/objects.rs :: fn builtin_object_remove_key ;; keep-pub
//@item crates/jrsonnet-stdlib/src/types.rs :: fn builtin_is_string ;; keep-pub
//@item crates/jrsonnet-stdlib/src/types.rs :: fn builtin_is_number ;; keep-pub
//@item crates/jrsonnet-stdlib/src/types.rs :: fn builtin_is_boolean ;; keep-pub
//@item crates/jrsonnet-stdlib/src/types.rs :: fn builtin_is_object ;; keep-pub
//@item crates/jrsonnet-stdlib/src/types.rs :: fn builtin_is_array ;; keep-pub
//@item crates/jrsonnet-stdlib/src/types.rs :: fn builtin_is_function ;; keep-pub
//@item crates/jrsonnet-stdlib/src/types.rs :: fn builtin_is_null ;; keep-pub
//@item crates/jrsonnet-stdlib/src/operator.rs :: fn builtin_xor ;; keep-pub
//@item crates/jrsonnet-stdlib/src/operator.rs :: fn builtin_xnor ;; keep-pub

#[cfg(kani)]
mod harness {
    use super::*;
    /// each std.object* function asks the object for the right thing (visible vs all fields)
    #[kani::proof]
    #[kani::unwind(4)]
    fn h_object_wrappers() {
        let h: bool = kani::any();
        unsafe {
            let _ = builtin_object_fields_ex(ObjValue, h); assert!(LAST == Call::FieldsEx(h), "obligation: std.objectFieldsEx passes its hidden flag");
            let _ = builtin_object_fields(ObjValue); assert!(LAST == Call::FieldsEx(false), "obligation: std.objectFields lists visible fields only");
            let _ = builtin_object_fields_all(ObjValue); assert!(LAST == Call::FieldsEx(true), "obligation: std.objectFieldsAll includes hidden fields");
            assert!(builtin_object_values(ObjValue) == ArrValue(Call::ValuesEx(false)) && builtin_object_values_all(ObjValue) == ArrValue(Call::ValuesEx(true)) && builtin_object_values_ex(ObjValue, h) == ArrValue(Call::ValuesEx(h)), "obligation: std.objectValues / objectValuesAll");
            assert!(builtin_object_keys_values(ObjValue) == ArrValue(Call::KeyValuesEx(false)) && builtin_object_keys_values_all(ObjValue) == ArrValue(Call::KeyValuesEx(true)) && builtin_object_keys_values_ex(ObjValue, h) == ArrValue(Call::KeyValuesEx(h)), "obligation: std.objectKeysValues / objectKeysValuesAll");
            let _ = builtin_object_has_ex(ObjValue, "k", h); assert!(LAST == Call::HasEx("k", h), "obligation: std.objectHasEx passes name and flag");
            let _ = builtin_object_has(ObjValue, "k"); assert!(LAST == Call::Has("k"), "obligation: std.objectHas = visible existence");
            let _ = builtin_object_has_all(ObjValue, "k"); assert!(LAST == Call::HasAll("k"), "obligation: std.objectHasAll = existence including hidden");
            let _ = builtin_object_remove_key(ObjValue, "k"); assert!(BUILT == (true, Some("k")), "obligation: std.objectRemoveKey = the object with a removed-key layer for exactly that name on top");
        }
        kani::cover!(h);
    }
    /// std.is* and std.xor / std.xnor truth tables over every kind of value
    #[kani::proof]
    fn h_type_predicates() {
        let k: u8 = kani::any(); kani::assume(k < 7);
        let v = match k { 0 => Val::Bool(kani::any()), 1 => Val::Null, 2 => Val::Str("s"), 3 => Val::Num(1.0), 4 => Val::Arr(ArrValue(Call::None)), 5 => Val::Obj(ObjValue), _ => Val::Func(FuncVal) };
        assert!(builtin_is_boolean(v) == (k == 0) && builtin_is_null(v) == (k == 1) && builtin_is_string(v) == (k == 2) && builtin_is_number(v) == (k == 3) && builtin_is_array(v) == (k == 4) && builtin_is_object(v) == (k == 5) && builtin_is_function(v) == (k == 6), "obligation: exactly one std.is* predicate holds, the one of the value's type");
        let (x, y): (bool, bool) = (kani::any(), kani::any());
        assert!(builtin_xor(x, y) == (x != y) && builtin_xnor(x, y) == (x == y), "obligation: std.xor / std.xnor");
        kani::cover!(k == 6);
    }
}
