// Kani unit std_strings (C11, C04): code-point vs byte arithmetic of findSubstr / substr / parseInt|Octal|Hex / char / codepoint.
#![allow(unused, dead_code, non_snake_case)]
use std::convert::TryFrom;

// ---------------------------------------------------------------- stand-ins (trusted)
#[derive(Debug, Clone, Copy)]
pub struct IStr(pub &'static str);
impl IStr { pub fn as_str(&self) -> &'static str { self.0 } }
impl std::ops::Deref for IStr { type Target = str; fn deref(&self) -> &str { self.0 } }
#[derive(Debug, Clone, Copy, PartialEq)]
pub struct NumValue(pub f64);
impl TryFrom<usize> for NumValue { type Error = (); fn try_from(v: usize) -> Result<Self, ()> { if v <= 9007199254740991 { Ok(NumValue(v as f64)) } else { Err(()) } } }
#[derive(Debug, Clone, Copy, PartialEq)]
pub enum Val { Num(NumValue) }
pub struct ArrValue { pub items: [u32; 8], pub n: usize }
impl ArrValue { pub fn empty() -> Self { ArrValue { items: [0; 8], n: 0 } } }
/// fixed-capacity stand-in for the result Vec<Val> of findSubstr
pub struct Vec<T> { items: [u32; 8], n: usize, _p: std::marker::PhantomData<T> }
impl Vec<Val> {
    pub fn new() -> Self { Vec { items: [0; 8], n: 0, _p: std::marker::PhantomData } }
    pub fn push(&mut self, v: Val) { let Val::Num(NumValue(f)) = v; assert!(self.n < 8, "stand-in capacity"); self.items[self.n] = f as u32; self.n += 1; }
}
impl From<Vec<Val>> for ArrValue { fn from(v: Vec<Val>) -> Self { ArrValue { items: v.items, n: v.n } } }
#[derive(Debug)]
pub enum ErrorKind { InvalidUnicodeCodepointGot(u32), RuntimeError(&'static str) }
pub use ErrorKind::*;
#[derive(Debug)]
pub struct Error(pub ErrorKind);
impl From<ErrorKind> for Error { fn from(k: ErrorKind) -> Self { Error(k) } }
pub type Result<T, E = Error> = std::result::Result<T, E>;
macro_rules! bail { ($l:literal$(, $($tt:tt)*)?) => { return Err(ErrorKind::RuntimeError($l).into()) }; }

// ---------------------------------------------------------------- extracted real code
//@item crates/jrsonnet-stdlib/src/strings.rs :: fn builtin_codepoint ;; keep-pub
//@item crates/jrsonnet-stdlib/src/strings.rs :: fn builtin_char ;; keep-pub
//@item crates/jrsonnet-stdlib/src/strings.rs :: fn builtin_find_substr ;; keep-pub
//@item crates/jrsonnet-stdlib/src/strings.rs :: fn builtin_parse_int ;; keep-pub
//@item crates/jrsonnet-stdlib/src/strings.rs :: fn builtin_parse_octal ;; keep-pub
//@item crates/jrsonnet-stdlib/src/strings.rs :: fn builtin_parse_hex ;; keep-pub
//@item crates/jrsonnet-stdlib/src/strings.rs :: fn parse_nat

#[cfg(kani)]
mod harness {
    extern crate alloc;
    use super::*;
    fn stub_format(_a: std::fmt::Arguments<'_>) -> String { String::new() }

    /// strings are assembled from whole characters of a small alphabet (never from raw symbolic bytes)
    static mut BUFS: [[u8; 12]; 2] = [[0; 12]; 2];
    fn build(slot: usize, alphabet: &[&'static str], max_chars: usize) -> (&'static str, usize) {
        let n: usize = kani::any(); kani::assume(n <= max_chars);
        let mut len = 0; let mut c = 0;
        while c < max_chars {
            if c < n {
                let pick: usize = kani::any(); kani::assume(pick < alphabet.len());
                let piece = alphabet[pick].as_bytes();
                let mut j = 0; while j < piece.len() { unsafe { BUFS[slot][len + j] = piece[j]; } j += 1; }
                len += piece.len();
            }
            c += 1;
        }
        (unsafe { std::str::from_utf8_unchecked(&BUFS[slot][..len]) }, n)
    }
    fn is_boundary(b: &[u8], p: usize) -> bool { p == b.len() || (b[p] & 0xC0) != 0x80 }

    /// std.findSubstr(pat, str): exactly the CODE-POINT indices at which pat occurs, ascending, overlaps included; never slices off a boundary
    #[kani::proof]
    #[kani::unwind(14)]
    fn h_find_substr() { check_find_substr(false); }
    #[kani::proof]
    #[kani::unwind(14)]
    fn h_find_substr_p2() { check_find_substr(true); }
    /// listed pairs around the byte-length / character-count boundary (pattern longer than the haystack in bytes but not in characters, and
    /// vice versa, empty operands): concrete, so a length mix-up shows at once even where the symbolic harnesses need their full budget
    #[kani::proof]
    #[kani::unwind(14)]
    fn h_find_substr_listed() {
        let cases: [(&'static str, &'static str, &[u32]); 7] = [("é", "a", &[]), ("日本", "ab", &[]), ("a", "é", &[]), ("aa", "a", &[]), ("", "a", &[]), ("a", "", &[]), ("é", "aéé", &[1, 2])];
        let mut c = 0;
        while c < 7 {
            let (pat, hay, want) = cases[c];
            let r = builtin_find_substr(IStr(pat), IStr(hay));
            assert!(r.n == want.len(), "obligation: findSubstr reports every occurrence and nothing else (listed pairs)");
            let mut i = 0; while i < want.len() { assert!(r.items[i] == want[i], "obligation: findSubstr positions are code-point indices (listed pairs)"); i += 1; }
            c += 1;
        }
    }
    /// split by pattern length (0-1 characters / exactly 2) to keep each query small
    fn check_find_substr(two: bool) {
        const A: [&str; 3] = ["a", "é", "😀"];
        let (hay, _) = build(0, &A, 3);
        let (pat, pn) = build(1, &A, 2);
        kani::assume((pn == 2) == two);
        let r = builtin_find_substr(IStr(pat), IStr(hay));
        let (hb, pb) = (hay.as_bytes(), pat.as_bytes());
        let mut want = [0u32; 8]; let mut wn = 0; let mut cp = 0u32; let mut p = 0;
        while p < hb.len() {
            if is_boundary(hb, p) {
                if !pb.is_empty() && p + pb.len() <= hb.len() {
                    let mut eq = true; let mut j = 0; while j < pb.len() { if hb[p + j] != pb[j] { eq = false; } j += 1; }
                    if eq { want[wn] = cp; wn += 1; }
                }
                cp += 1;
            }
            p += 1;
        }
        assert!(r.n == wn, "obligation: findSubstr reports every occurrence and nothing else");
        let mut i = 0; while i < wn { assert!(r.items[i] == want[i], "obligation: findSubstr positions are code-point indices, ascending"); i += 1; }
        kani::cover!(if two { wn == 2 } else { wn == 2 && want[1] == 2 });
        kani::cover!(wn == 1 && want[0] == 1 && hb.len() > 3);
    }

    /// std.char / std.codepoint on every u32
    #[kani::proof]
    fn h_char_codepoint() {
        let n: u32 = kani::any();
        match builtin_char(n) {
            Ok(c) => { assert!(n <= 0x10FFFF && !(n >= 0xD800 && n <= 0xDFFF), "obligation: std.char rejects surrogates and values beyond U+10FFFF"); assert!(builtin_codepoint(c) == n, "obligation: codepoint(char(n)) == n"); }
            Err(_) => assert!(n > 0x10FFFF || (n >= 0xD800 && n <= 0xDFFF), "obligation: std.char accepts every Unicode scalar value"),
        }
        kani::cover!(n == 0x10FFFF);
        kani::cover!(n == 0xD800);
    }

    fn digit_val(c: u8, base: u32) -> Option<u32> {
        let d = match c { b'0'..=b'9' => (c - b'0') as u32, b'a'..=b'f' => (c - b'a') as u32 + 10, b'A'..=b'F' => (c - b'A') as u32 + 10, _ => return None };
        if d < base { Some(d) } else { None }
    }
    fn check_parse(base: u32, allow_minus: bool) {
        const A: [&str; 12] = ["0", "7", "9", "a", "F", "g", "-", "é", ":", "?", "@", "/"];   // incl. the characters just outside 0-9 / A-F in ASCII order
        let (s, _) = build(0, &A, 3);
        let b = s.as_bytes();
        let r = match base { 10 => builtin_parse_int(IStr(s)), 8 => builtin_parse_octal(IStr(s)), _ => builtin_parse_hex(IStr(s)) };
        let neg = allow_minus && !b.is_empty() && b[0] == b'-';
        let start = if neg { 1 } else { 0 };
        let mut ok = b.len() > start; let mut val: u32 = 0; let mut i = start;
        while i < b.len() { match digit_val(b[i], base) { Some(d) => val = val * base + d, None => ok = false } i += 1; }
        match r {
            Ok(v) => { assert!(ok, "obligation: only non-empty digit strings of the base (optional leading - for parseInt) parse");
                       assert!(v == if neg { -(val as f64) } else { val as f64 }, "obligation: value is the positional value of the digits"); }
            Err(_) => assert!(!ok, "obligation: every well-formed integer literal of the base parses"),
        }
    }
    /// digit classification, complete: every one-character ASCII string, all three bases
    #[kani::proof]
    #[kani::unwind(4)]
    #[kani::stub(alloc::fmt::format, stub_format)]
    fn h_digit_table() {
        let c: u8 = kani::any(); kani::assume(c < 0x80);
        unsafe { BUFS[0][0] = c; }
        let s: &'static str = unsafe { std::str::from_utf8_unchecked(&BUFS[0][..1]) };
        let r8 = builtin_parse_octal(IStr(s)); let r10 = builtin_parse_int(IStr(s)); let r16 = builtin_parse_hex(IStr(s));
        assert!(match (&r8, digit_val(c, 8)) { (Ok(v), Some(d)) => *v == d as f64, (Err(_), None) => true, _ => false }, "obligation: parseOctal accepts exactly the characters 0-7, with their digit value");
        assert!(match (&r10, digit_val(c, 10)) { (Ok(v), Some(d)) => *v == d as f64, (Err(_), None) => true, _ => false }, "obligation: parseInt accepts exactly the characters 0-9, with their digit value");
        assert!(match (&r16, digit_val(c, 16)) { (Ok(v), Some(d)) => *v == d as f64, (Err(_), None) => true, _ => false }, "obligation: parseHex accepts exactly the characters 0-9 a-f A-F, with their digit value");
        std::mem::forget((r8, r10, r16));
        kani::cover!(c == b':'); kani::cover!(c == b'f');
    }
    #[kani::proof]
    #[kani::unwind(14)]
    #[kani::stub(alloc::fmt::format, stub_format)]
    fn h_parse_int() { check_parse(10, true); kani::cover!(true); }
    #[kani::proof]
    #[kani::unwind(14)]
    #[kani::stub(alloc::fmt::format, stub_format)]
    fn h_parse_octal() { check_parse(8, false); kani::cover!(true); }
    #[kani::proof]
    #[kani::unwind(14)]
    #[kani::stub(alloc::fmt::format, stub_format)]
    fn h_parse_hex() { check_parse(16, false); kani::cover!(true); }
}
