// Kani unit c_entry (C15): the six libjsonnet evaluation entry points (jsonnet_evaluate_file / _snippet, *_multi, *_stream).
// Contract: the VM's state is ENTERED for the duration of the call before anything is evaluated (imports, ext code and TLA code
// resolve through the entered state -- without it every import fails), the input is evaluated, top-level arguments are applied
// once, the result is manifested with the VM's format; success returns the text with *error = 0, failure returns the rendered
// trace with *error = 1.
#![allow(unused, dead_code, static_mut_refs)]
use std::{borrow::Cow, ffi::OsStr, os::raw::{c_char, c_int}, path::Path};

// ---------------------------------------------------------------- stand-ins (trusted): logging collaborators
//@include fixed_string_only.rs
/// CString::new(..).into_raw(): Kani's realloc model reports spurious failures inside alloc::ffi::CString; a static buffer stands in
static mut CBUF: [u8; 16] = [0; 16];
pub struct CString;
impl CString {
    pub fn new(s: &str) -> core::result::Result<CString, ()> { let b = s.as_bytes(); assert!(b.len() < 16); let mut i = 0; while i < b.len() { if b[i] == 0 { return Err(()); } unsafe { CBUF[i] = b[i]; } i += 1; } unsafe { CBUF[b.len()] = 0; } Ok(CString) }
    pub fn into_raw(self) -> *mut c_char { unsafe { CBUF.as_mut_ptr().cast() } }
}
/// core::ffi::CStr calls the foreign strlen, which Kani does not model: a view of a NUL-terminated byte string with the same interface
pub struct CStr { p: *const u8, n: usize }
static mut CSTRS: [CStr; 4] = [CStr { p: std::ptr::null(), n: 0 }, CStr { p: std::ptr::null(), n: 0 }, CStr { p: std::ptr::null(), n: 0 }, CStr { p: std::ptr::null(), n: 0 }];
static mut NCSTR: usize = 0;
impl CStr {
    pub unsafe fn from_ptr<'a>(p: *const c_char) -> &'a CStr { let p = p as *const u8; let mut n = 0; while *p.add(n) != 0 { n += 1; } let i = NCSTR % 4; NCSTR += 1; CSTRS[i] = CStr { p, n }; &CSTRS[i] }
    pub fn to_bytes(&self) -> &[u8] { unsafe { std::slice::from_raw_parts(self.p, self.n) } }
    pub fn to_str(&self) -> core::result::Result<&str, std::str::Utf8Error> { Ok(unsafe { std::str::from_utf8_unchecked(self.to_bytes()) }) }
}
#[derive(Clone, Copy, PartialEq, Debug)] pub enum Ev { Enter, Import, Snippet, ApplyTla, Manifest, Multi, Stream, None }
static mut LOG: [Ev; 8] = [Ev::None; 8];
static mut NLOG: usize = 0;
static mut ENTERED: bool = false;
static mut FAILS: bool = false;
fn log(e: Ev) { unsafe { if NLOG < 8 { LOG[NLOG] = e; } NLOG += 1; } }
#[derive(Debug)] pub struct Error;
pub type Result<T> = core::result::Result<T, Error>;
pub struct Guard; impl Drop for Guard { fn drop(&mut self) { unsafe { ENTERED = false; } } }
#[derive(Clone, Copy)] pub struct Val;
pub struct OutStr(pub &'static str);
impl std::ops::Deref for OutStr { type Target = str; fn deref(&self) -> &str { self.0 } }
pub trait ManifestFormat {} pub struct Json(pub u8); impl ManifestFormat for Json {}
pub trait TraceFormat { fn write_trace(&self, out: &mut String, e: &Error) -> core::result::Result<(), std::fmt::Error>; }
static mut TRACED: u32 = 0;
pub struct Compact(pub u8); impl TraceFormat for Compact { fn write_trace(&self, _out: &mut String, _e: &Error) -> core::result::Result<(), std::fmt::Error> { unsafe { TRACED += 1; } Ok(()) } }
impl Val { pub fn manifest<F>(&self, _f: F) -> Result<OutStr> { log(Ev::Manifest); Ok(OutStr("OUT")) } }
pub struct State;
impl State {
    pub fn try_enter(&self) -> Option<Guard> { unsafe { if ENTERED { None } else { ENTERED = true; log(Ev::Enter); Some(Guard) } } }
    pub fn enter(&self) -> Guard { self.try_enter().expect("entered state already exists") }
    fn eval(&self, e: Ev) -> Result<Val> { unsafe { assert!(ENTERED, "obligation: the VM's state is entered before the program is evaluated (imports and ext/tla code resolve through it)"); log(e); if FAILS { Err(Error) } else { Ok(Val) } } }
    pub fn import<P>(&self, _p: P) -> Result<Val> { self.eval(Ev::Import) }
    pub fn evaluate_snippet(&self, _name: &str, _code: &str) -> Result<Val> { self.eval(Ev::Snippet) }
}
pub struct IStr; pub struct TlaArg; pub struct FxHashMap<K, V>(pub std::marker::PhantomData<(K, V)>);
pub fn apply_tla(_a: &FxHashMap<IStr, TlaArg>, v: Val) -> Result<Val> { unsafe { assert!(ENTERED, "obligation: top-level arguments (which may be code or imports) are evaluated inside the entered state"); } log(Ev::ApplyTla); Ok(v) }
static MULTI: [u8; 6] = *b"a\0x\0\0\0";
fn val_to_multi<F>(_v: Val, _f: F) -> Result<u8> { log(Ev::Multi); Ok(1) }
fn multi_to_raw(_m: u8) -> *const c_char { MULTI.as_ptr().cast() }
fn val_to_stream<F>(_v: Val, _f: F) -> Result<u8> { log(Ev::Stream); Ok(2) }
fn stream_to_raw(_m: u8) -> *const c_char { MULTI.as_ptr().cast() }

// ---------------------------------------------------------------- extracted real code
//@item bindings/jsonnet/src/lib.rs :: fn parse_path
//@item bindings/jsonnet/src/lib.rs :: struct VM ;; keep-pub
//@item bindings/jsonnet/src/lib.rs :: fn jsonnet_evaluate_file ;; keep-pub
//@item bindings/jsonnet/src/lib.rs :: fn jsonnet_evaluate_snippet ;; keep-pub
//@item bindings/jsonnet/src/lib.rs :: fn jsonnet_evaluate_file_multi ;; keep-pub
//@item bindings/jsonnet/src/lib.rs :: fn jsonnet_evaluate_snippet_multi ;; keep-pub
//@item bindings/jsonnet/src/lib.rs :: fn jsonnet_evaluate_file_stream ;; keep-pub
//@item bindings/jsonnet/src/lib.rs :: fn jsonnet_evaluate_snippet_stream ;; keep-pub

#[cfg(kani)]
mod harness {
    use super::*;
    fn vm() -> VM { VM { state: State, manifest_format: Box::new(Json(0)), trace_format: Box::new(Compact(0)), tla_args: FxHashMap(std::marker::PhantomData) } }
    fn text_is(p: *const c_char, want: &[u8]) -> bool { let mut i = 0; while i < want.len() { if unsafe { *p.add(i) } as u8 != want[i] { return false; } i += 1; } unsafe { *p.add(want.len()) == 0 } }
    fn order_ok(eval: Ev) -> bool { unsafe { NLOG >= 2 && LOG[0] == Ev::Enter && LOG[1] == eval } }
    #[kani::proof] #[kani::unwind(12)]
    fn h_snippet_and_file() {
        let fails: bool = kani::any(); unsafe { FAILS = fails; }
        let v = vm(); let mut err: c_int = 7;
        let out = unsafe { jsonnet_evaluate_snippet(&v, b"f\0".as_ptr().cast(), b"1\0".as_ptr().cast(), &mut err) };
        assert!(order_ok(Ev::Snippet), "obligation: the state is entered first, then the snippet is evaluated");
        if fails { unsafe { assert!(err == 1 && TRACED == 1 && text_is(out, b""), "obligation: a failing evaluation returns the rendered trace (and only that) with *error = 1"); } }
        else { unsafe { assert!(err == 0 && text_is(out, b"OUT") && NLOG == 4 && LOG[2] == Ev::ApplyTla && LOG[3] == Ev::Manifest, "obligation: evaluate, apply top-level arguments once, manifest with the VM's format; *error = 0 and the text is returned"); } }
        unsafe { assert!(!ENTERED, "obligation: the state is left again when the call returns"); NLOG = 0; }
        let out = unsafe { jsonnet_evaluate_file(&v, b"m\0".as_ptr().cast(), &mut err) };
        assert!(order_ok(Ev::Import) && err == if fails { 1 } else { 0 }, "obligation: same for a file: entered first, then imported");
        std::mem::forget(v);
        kani::cover!(fails); kani::cover!(!fails);
    }
    #[kani::proof] #[kani::unwind(12)]
    fn h_multi_and_stream() {
        let v = vm(); let mut err: c_int = 7;
        let _ = unsafe { jsonnet_evaluate_snippet_multi(&v, b"f\0".as_ptr().cast(), b"1\0".as_ptr().cast(), &mut err) };
        unsafe { assert!(order_ok(Ev::Snippet) && err == 0 && LOG[2] == Ev::ApplyTla && LOG[3] == Ev::Multi, "obligation: *_multi enters the state, evaluates, applies TLAs, then splits the object"); NLOG = 0; }
        let _ = unsafe { jsonnet_evaluate_file_multi(&v, b"m\0".as_ptr().cast(), &mut err) };
        unsafe { assert!(order_ok(Ev::Import) && err == 0 && LOG[3] == Ev::Multi, "obligation: file variant likewise"); NLOG = 0; }
        let _ = unsafe { jsonnet_evaluate_snippet_stream(&v, b"f\0".as_ptr().cast(), b"1\0".as_ptr().cast(), &mut err) };
        unsafe { assert!(order_ok(Ev::Snippet) && err == 0 && LOG[3] == Ev::Stream, "obligation: *_stream enters the state, evaluates, applies TLAs, then splits the array"); NLOG = 0; }
        let _ = unsafe { jsonnet_evaluate_file_stream(&v, b"m\0".as_ptr().cast(), &mut err) };
        unsafe { assert!(order_ok(Ev::Import) && err == 0 && LOG[3] == Ev::Stream, "obligation: file variant likewise"); }
        std::mem::forget(v);
    }
}
