// Kani unit fmt_codes (C12, C04): std.format code parser, integer/float renderers' width arithmetic,
// `*` argument consumption order.
#![allow(unused, dead_code, non_snake_case)]

// ---------------------------------------------------------------- stand-ins (trusted)
//@include fixed_string.rs
pub type IStr = &'static str;
#[derive(Debug, Clone, Copy, PartialEq, Eq)]
pub enum ValType { Num, Str, Other }
impl Default for ValType { fn default() -> Self { ValType::Other } }
#[derive(Debug, Clone, Copy, PartialEq)]
pub struct NumValue(pub f64);
impl NumValue { pub fn get(&self) -> f64 { self.0 } }
#[derive(Debug, Clone, Copy, PartialEq)]
pub enum Val { Null, Num(NumValue), Str(&'static str) }
impl Val {
    pub fn to_string(self) -> Result<&'static str> { Ok(match self { Val::Str(s) => s, _ => "" }) }
    pub fn value_type(&self) -> ValType { match self { Val::Num(_) => ValType::Num, Val::Str(_) => ValType::Str, _ => ValType::Other } }
}
pub trait StrFlat { fn into_flat(self) -> &'static str; }
impl StrFlat for &'static str { fn into_flat(self) -> &'static str { self } }
#[derive(Clone)]
pub enum ErrorKind { Format(FormatError), RuntimeError(&'static str), InvalidUnicodeCodepointGot(u32), TypeMismatch(&'static str, Vec<ValType>, ValType), Typed }
pub use ErrorKind::*;
#[derive(Clone)]
pub struct Error(pub ErrorKind);
impl Error { pub fn new(k: ErrorKind) -> Self { Error(k) } }
impl From<ErrorKind> for Error { fn from(k: ErrorKind) -> Self { Error(k) } }
pub type Result<T, E = Error> = std::result::Result<T, E>;
macro_rules! bail {
    ($w:ident$(::$i:ident)*$(($($tt:tt)*))?) => { return Err($w$(::$i)*$(($($tt)*))?.into()) };
    ($l:literal$(, $($tt:tt)*)?) => { return Err(ErrorKind::RuntimeError($l).into()) };
}
impl From<FormatError> for ErrorKind { fn from(e: FormatError) -> Self { ErrorKind::Format(e) } }
pub trait FromUntyped: Sized { fn from_untyped(v: Val) -> Result<Self>; }
impl FromUntyped for f64 { fn from_untyped(v: Val) -> Result<f64> { match v { Val::Num(n) => Ok(n.0), _ => Err(Error(ErrorKind::Typed)) } } }
// mirrors typed/conversions.rs: u16 accepts only integral numbers in range
impl FromUntyped for u16 { fn from_untyped(v: Val) -> Result<u16> { match v { Val::Num(NumValue(n)) if n >= 0.0 && n <= 65535.0 && n == n.trunc() => Ok(n as u16), _ => Err(Error(ErrorKind::Typed)) } } }
#[derive(Clone, Copy)]
pub struct ObjValue;
/// key text of a %(key) code (the IStr of format_obj, renamed): compared by content
#[derive(Clone, Copy)]
pub struct KeyStr { b: [u8; 8], n: usize }
impl From<&str> for KeyStr { fn from(s: &str) -> Self { let mut k = KeyStr { b: [0; 8], n: s.len() }; let sb = s.as_bytes(); let mut i = 0; while i < sb.len() && i < 8 { k.b[i] = sb[i]; i += 1; } k } }
impl KeyStr { pub fn is_empty(&self) -> bool { self.n == 0 } pub fn is(&self, s: &str) -> bool { let sb = s.as_bytes(); if sb.len() != self.n { return false; } let mut i = 0; while i < sb.len() { if self.b[i] != sb[i] { return false; } i += 1; } true } }
impl std::ops::Deref for KeyStr { type Target = str; fn deref(&self) -> &str { unsafe { std::str::from_utf8_unchecked(std::slice::from_raw_parts(self.b.as_ptr(), self.n)) } } }
/// object { "a.b": "exact", x: 7 } for format_obj
impl ObjValue { pub fn get(&self, k: KeyStr) -> Result<Option<Val>> { Ok(if k.is("a.b") { Some(Val::Str("exact")) } else if k.is("x") { Some(Val::Num(NumValue(7.0))) } else { None }) } }
pub static mut DOTTED_CALLS: usize = 0;
pub static mut DOTTED_KEY_OK: bool = false;
/// contract of get_dotted_field: the value at the dotted path
fn get_dotted_field(_obj: ObjValue, field: &str) -> Result<Val> { unsafe { DOTTED_CALLS += 1; DOTTED_KEY_OK = field.len() == 3 && field.as_bytes()[0] == b'q' && field.as_bytes()[1] == b'.' && field.as_bytes()[2] == b'r'; } Ok(Val::Str("dotted")) }

// probe replacing format_code inside format_arr (rename rewrite): records what each code received
#[derive(Debug, Clone, Copy, PartialEq)]
pub struct Probe { pub value: Val, pub width: u16, pub precision: Option<u16>, pub conv_is_percent: bool }
pub static mut PROBES: [Option<Probe>; 4] = [None; 4];
pub static mut NPROBES: usize = 0;
pub fn format_code_probe(out: &mut String, value: &Val, code: &Code<'_>, width: u16, precision: Option<u16>) -> Result<()> {
    unsafe { if NPROBES < 4 { PROBES[NPROBES] = Some(Probe { value: *value, width, precision, conv_is_percent: code.convtype == ConvTypeV::Percent }); } NPROBES += 1; }
    Ok(())
}

// ---------------------------------------------------------------- extracted real code
//@item crates/jrsonnet-evaluator/src/stdlib/format.rs :: enum FormatError ;; std-derives keep-pub
use FormatError::*;
//@item crates/jrsonnet-evaluator/src/stdlib/format.rs :: impl From<FormatError> for Error
//@item crates/jrsonnet-evaluator/src/stdlib/format.rs :: type ParseResult
//@item crates/jrsonnet-evaluator/src/stdlib/format.rs :: fn try_parse_mapping_key ;; keep-pub
//@item crates/jrsonnet-evaluator/src/stdlib/format.rs :: struct CFlags ;; std-derives keep-pub
//@item crates/jrsonnet-evaluator/src/stdlib/format.rs :: fn try_parse_cflags ;; keep-pub
//@item crates/jrsonnet-evaluator/src/stdlib/format.rs :: enum Width ;; std-derives keep-pub
//@item crates/jrsonnet-evaluator/src/stdlib/format.rs :: fn try_parse_field_width ;; keep-pub
//@item crates/jrsonnet-evaluator/src/stdlib/format.rs :: fn try_parse_precision ;; keep-pub
//@item crates/jrsonnet-evaluator/src/stdlib/format.rs :: fn try_parse_length_modifier ;; keep-pub
//@item crates/jrsonnet-evaluator/src/stdlib/format.rs :: enum ConvTypeV ;; std-derives keep-pub
//@item crates/jrsonnet-evaluator/src/stdlib/format.rs :: struct ConvType ;; keep-pub
//@item crates/jrsonnet-evaluator/src/stdlib/format.rs :: fn parse_conversion_type ;; keep-pub
//@item crates/jrsonnet-evaluator/src/stdlib/format.rs :: struct Code ;; std-derives keep-pub
//@item crates/jrsonnet-evaluator/src/stdlib/format.rs :: fn parse_code ;; keep-pub
//@item crates/jrsonnet-evaluator/src/stdlib/format.rs :: enum Element ;; std-derives keep-pub
//@item crates/jrsonnet-evaluator/src/stdlib/format.rs :: fn parse_codes ;; keep-pub
//@item crates/jrsonnet-evaluator/src/stdlib/format.rs :: const NUMBERS
//@item crates/jrsonnet-evaluator/src/stdlib/format.rs :: fn render_integer ;; keep-pub
//@item crates/jrsonnet-evaluator/src/stdlib/format.rs :: fn render_decimal ;; keep-pub
//@item crates/jrsonnet-evaluator/src/stdlib/format.rs :: fn render_octal ;; keep-pub
//@item crates/jrsonnet-evaluator/src/stdlib/format.rs :: fn render_hexadecimal ;; keep-pub
//@item crates/jrsonnet-evaluator/src/stdlib/format.rs :: fn render_float ;; keep-pub
//@item crates/jrsonnet-evaluator/src/stdlib/format.rs :: fn render_float_sci ;; keep-pub
//@item crates/jrsonnet-evaluator/src/stdlib/format.rs :: fn format_code ;; keep-pub
//@item crates/jrsonnet-evaluator/src/stdlib/format.rs :: fn format_arr ;; keep-pub rename=format_code->format_code_probe
//@item crates/jrsonnet-evaluator/src/stdlib/format.rs :: fn format_obj ;; keep-pub rename=format_code->format_code_probe rename=IStr->KeyStr

#[cfg(kani)]
mod harness {
    extern crate alloc;
    use super::*;
    fn stub_format(_a: std::fmt::Arguments<'_>) -> std::string::String { std::string::String::new() }
    fn ascii(bytes: &[u8]) -> &str { unsafe { std::str::from_utf8_unchecked(bytes) } }   // callers pass bytes < 0x80 only

    /// conversion letter table, all 128 ASCII characters: exactly d i u o x X e E f F g G c s % are conversions
    #[kani::proof]
    fn h_conv_type() {
        let b: u8 = kani::any(); kani::assume(b < 0x80);
        let arr = [b, b'z'];
        let want: Option<(ConvTypeV, bool)> = match b {
            b'd' | b'i' | b'u' => Some((ConvTypeV::Decimal, false)), b'o' => Some((ConvTypeV::Octal, false)),
            b'x' => Some((ConvTypeV::Hexadecimal, false)), b'X' => Some((ConvTypeV::Hexadecimal, true)),
            b'e' => Some((ConvTypeV::Scientific, false)), b'E' => Some((ConvTypeV::Scientific, true)),
            b'f' => Some((ConvTypeV::Float, false)), b'F' => Some((ConvTypeV::Float, true)),
            b'g' => Some((ConvTypeV::Shorter, false)), b'G' => Some((ConvTypeV::Shorter, true)),
            b'c' => Some((ConvTypeV::Char, false)), b's' => Some((ConvTypeV::String, false)), b'%' => Some((ConvTypeV::Percent, false)),
            _ => None,
        };
        match parse_conversion_type(ascii(&arr)) {
            Ok((c, rest)) => { assert!(want == Some((c.v, c.caps)), "obligation: conversion letter maps to its conversion (d i u o x X e E f F g G c s %)"); assert!(rest.len() == 1, "obligation: exactly one character consumed"); }
            Err(FormatError::UnrecognizedConversionType(c)) => assert!(want.is_none() && c == b as char, "obligation: unknown conversions are errors naming the character"),
            Err(_) => panic!("obligation: wrong error kind for a conversion character"),
        }
        assert!(matches!(parse_conversion_type(""), Err(FormatError::TruncatedFormatCode)), "obligation: truncated code is an error");
        kani::cover!(b == b'S');
        kani::cover!(b == b'G');
    }

    /// field width: `*`, or the decimal value of the digit run; never a crash (widths beyond u16 are an error)
    #[kani::proof]
    #[kani::unwind(8)]
    fn h_field_width() {
        let bytes: [u8; 6] = kani::any();
        let mut i = 0; while i < 6 { kani::assume(bytes[i] < 0x80); i += 1; }
        let s = ascii(&bytes);
        let r = try_parse_field_width(s);
        let mut nd = 0; let mut val: u32 = 0; let mut too_large = false;
        while nd < 6 && bytes[nd].is_ascii_digit() { val = val * 10 + (bytes[nd] - b'0') as u32; if val > 65535 { too_large = true; } nd += 1; }
        if bytes[0] == b'*' { assert!(matches!(r, Ok((Width::Star, rest)) if rest.len() == 5), "obligation: * width"); }
        else if too_large { assert!(r.is_err(), "obligation: a width beyond the supported range is an error, not a crash or a wrapped value"); }
        else if nd == 6 { assert!(matches!(r, Err(FormatError::TruncatedFormatCode)), "obligation: code truncated after the width"); }
        else { assert!(matches!(r, Ok((Width::Fixed(v), rest)) if v as u32 == val && rest.len() == 6 - nd), "obligation: width is the decimal value of the digit run"); }
        kani::cover!(nd == 5 && too_large);
        kani::cover!(nd == 3);
    }

    /// flags: each flag set iff its character occurs in the flag run; rest starts at the first non-flag
    #[kani::proof]
    #[kani::unwind(7)]
    fn h_cflags() {
        let bytes: [u8; 5] = kani::any();
        let mut i = 0; while i < 5 { kani::assume(bytes[i] < 0x80); i += 1; }
        let r = try_parse_cflags(ascii(&bytes));
        let isf = |c: u8| c == b'#' || c == b'0' || c == b'-' || c == b' ' || c == b'+';
        let mut n = 0; while n < 5 && isf(bytes[n]) { n += 1; }
        if n == 5 { assert!(matches!(r, Err(FormatError::TruncatedFormatCode)), "obligation: flags up to the end of the string = truncated code"); }
        else {
            match r { Ok((f, rest)) => {
                let has = |c: u8| { let mut j = 0; let mut h = false; while j < n { if bytes[j] == c { h = true; } j += 1; } h };
                assert!(rest.len() == 5 - n, "obligation: flag run consumed exactly");
                assert!(f.alt == has(b'#') && f.zero == has(b'0') && f.left == has(b'-') && f.blank == has(b' ') && f.sign == has(b'+'), "obligation: each flag is set iff its character occurs");
            } Err(_) => panic!("obligation: flags followed by more text parse") }
        }
        kani::cover!(n == 3);
    }

    /// mapping key, precision, length modifier: consumed text + rest == input, never a crash
    #[kani::proof]
    #[kani::unwind(7)]
    fn h_key_precision_len() {
        let bytes: [u8; 5] = kani::any();
        let mut i = 0; while i < 5 { kani::assume(bytes[i] < 0x80); i += 1; }
        let s = ascii(&bytes);
        match try_parse_mapping_key(s) {
            Ok((k, rest)) => if bytes[0] == b'(' { assert!(k.len() + rest.len() + 2 == 5 && !k.as_bytes().contains(&b')'), "obligation: key is the text up to the first )"); } else { assert!(k.is_empty() && rest.len() == 5, "obligation: no key consumes nothing"); },
            Err(FormatError::TruncatedFormatCode) => assert!(bytes[0] == b'(' && !bytes[1..].contains(&b')'), "obligation: unterminated key is a truncated code"),
            Err(_) => panic!("obligation: wrong error kind"),
        }
        match try_parse_precision(s) {
            Ok((None, rest)) => assert!(bytes[0] != b'.' && rest.len() == 5, "obligation: no precision consumes nothing"),
            Ok((Some(_), rest)) => assert!(bytes[0] == b'.' && rest.len() < 5, "obligation: precision starts with a dot"),
            Err(_) => assert!(bytes[0] == b'.', "obligation: only a dotted precision can fail"),
        }
        match try_parse_length_modifier(s) {
            Ok(((), rest)) => { let mut n = 0; while n < 5 && (bytes[n] == b'h' || bytes[n] == b'l' || bytes[n] == b'L') { n += 1; } assert!(rest.len() == 5 - n, "obligation: h l L are skipped"); }
            Err(_) => assert!(bytes.iter().all(|c| *c == b'h' || *c == b'l' || *c == b'L'), "obligation: only an all-modifier tail is truncated"),
        }
        kani::cover!(bytes[0] == b'(' && bytes[3] == b')');
    }

    /// `*` width and `*` precision take their values left to right, then the value; %% consumes nothing;
    /// too few values is an error, leftover values are an error
    #[kani::proof]
    #[kani::unwind(10)]
    #[kani::stub(alloc::fmt::format, stub_format)]
    fn h_format_arr_order() { check_format_arr(3); }
    #[kani::proof]
    #[kani::unwind(10)]
    #[kani::stub(alloc::fmt::format, stub_format)]
    fn h_format_arr_too_few() { check_format_arr(2); }
    #[kani::proof]
    #[kani::unwind(10)]
    #[kani::stub(alloc::fmt::format, stub_format)]
    fn h_format_arr_too_many() { check_format_arr(4); }
    /// object mode: %(key) takes the field of exactly that name first, a dotted path only as a fallback; %% needs no key;
    /// a code without key, or a * width / precision, is an error
    #[kani::proof] #[kani::unwind(10)] #[kani::stub(alloc::fmt::format, stub_format)]
    fn h_format_obj_exact() {
        unsafe { NPROBES = 0; DOTTED_CALLS = 0; }
        assert!(format_obj("%(a.b)s", &ObjValue).is_ok(), "obligation: a key naming an existing field formats");
        unsafe { assert!(NPROBES == 1 && PROBES[0].unwrap().value == Val::Str("exact") && DOTTED_CALLS == 0, "obligation: %(key) uses the field of exactly that name when it exists, even if the name contains dots"); }
    }
    #[kani::proof] #[kani::unwind(10)] #[kani::stub(alloc::fmt::format, stub_format)]
    fn h_format_obj_dotted() {
        unsafe { NPROBES = 0; DOTTED_CALLS = 0; }
        assert!(format_obj("%(q.r)s", &ObjValue).is_ok(), "obligation: a dotted key without an exact field falls back to the path");
        unsafe { assert!(NPROBES == 1 && PROBES[0].unwrap().value == Val::Str("dotted") && DOTTED_CALLS == 1 && DOTTED_KEY_OK, "obligation: the fallback looks up the whole key as a dotted path"); }
    }
    #[kani::proof] #[kani::unwind(10)] #[kani::stub(alloc::fmt::format, stub_format)]
    fn h_format_obj_percent() {
        unsafe { NPROBES = 0; }
        assert!(format_obj("%(x)d%%", &ObjValue).is_ok(), "obligation: %% needs no key");
        unsafe { assert!(NPROBES == 2 && PROBES[0].unwrap().value == Val::Num(NumValue(7.0)) && PROBES[1].unwrap().conv_is_percent && PROBES[1].unwrap().value == Val::Null, "obligation: codes are rendered left to right with their own field"); }
    }
    #[kani::proof] #[kani::unwind(10)] #[kani::stub(alloc::fmt::format, stub_format)]
    fn h_format_obj_errors() {
        assert!(format_obj("%s", &ObjValue).is_err(), "obligation: in object mode every conversion needs a mapping key");
        assert!(format_obj("%(x)*d", &ObjValue).is_err(), "obligation: * width cannot be used with an object");
    }
    /// parse_codes: a `%` that is not followed by a complete code -- in particular a lone `%` at the very end -- is an error, never
    /// dropped; literal text and codes of a well-formed string tile it
    #[kani::proof] #[kani::unwind(10)] #[kani::stub(alloc::fmt::format, stub_format)]
    fn h_parse_codes_trailing_percent() {
        assert!(parse_codes("1%").is_err(), "obligation: a lone % at the end of the format string is a truncated code (error), not dropped");
        assert!(parse_codes("%d%").is_err(), "obligation: a lone % after a complete code is an error too");
        assert!(parse_codes("%").is_err(), "obligation: a format string that is just % is an error");
    }
    #[kani::proof] #[kani::unwind(10)] #[kani::stub(alloc::fmt::format, stub_format)]
    fn h_parse_codes_tiling() {
        match parse_codes("a%db%%") {
            Ok(v) => assert!(v.len() == 4 && matches!(&v[0], Element::String(t) if t.len() == 1 && t.as_bytes()[0] == b'a') && matches!(&v[1], Element::Code(c) if c.convtype == ConvTypeV::Decimal) && matches!(&v[2], Element::String(t) if t.len() == 1 && t.as_bytes()[0] == b'b') && matches!(&v[3], Element::Code(c) if c.convtype == ConvTypeV::Percent), "obligation: literal text and codes alternate in input order and tile the format string"),
            Err(_) => panic!("obligation: a well-formed format string parses"),
        }
    }
    fn check_format_arr(n: usize) {
        // distinct small values: the obligation is about ORDER of consumption, not about number conversion
        let w: u8 = if kani::any() { 1 } else { 5 }; let p: u8 = if kani::any() { 2 } else { 6 }; let v: u8 = if kani::any() { 3 } else { 9 };
        let vals = [Val::Num(NumValue(w as f64)), Val::Num(NumValue(p as f64)), Val::Num(NumValue(v as f64)), Val::Num(NumValue(77.0))];
        unsafe { NPROBES = 0; }
        let r = format_arr("%*.*d%%", &vals[..n]);
        if n < 3 { assert!(r.is_err(), "obligation: too few values is an error"); }
        else if n > 3 { assert!(r.is_err(), "obligation: too many values is an error"); }
        else {
            assert!(r.is_ok(), "obligation: exactly enough values formats");
            unsafe {
                assert!(NPROBES == 2, "obligation: two codes rendered");
                let p0 = PROBES[0].unwrap();
                assert!(p0.width == w as u16 && p0.precision == Some(p as u16) && p0.value == Val::Num(NumValue(v as f64)), "obligation: values are consumed left to right: width, precision, value");
                assert!(PROBES[1].unwrap().conv_is_percent && PROBES[1].unwrap().value == Val::Null, "obligation: %% consumes no value");
            }
        }
        kani::cover!(w != p);
    }

    /// integer rendering: length honours max(width, natural length); sign/blank/plus; zero padding; # prefix -- small values
    #[kani::proof]
    #[kani::unwind(12)]
    fn h_render_decimal() {
        let iv: u8 = kani::any(); let neg: bool = kani::any(); let padding: u8 = kani::any(); let precision: u8 = kani::any();
        let blank: bool = kani::any(); let sign: bool = kani::any();
        kani::assume(padding <= 7 && precision <= 5);
        kani::assume(!(neg && iv == 0));
        let mut out = String::with_capacity(16);
        render_decimal(&mut out, neg, iv as f64, padding as u16, precision as u16, blank, sign);
        let b = out.as_bytes();
        let nd = if iv >= 100 { 3 } else if iv >= 10 { 2 } else { 1 };
        let signlen = if neg || sign || blank { 1 } else { 0 };
        let body = core::cmp::max(nd, precision as usize);
        assert!(b.len() == core::cmp::max(padding as usize, signlen + body), "obligation: %d text length = max(width, sign + max(digits, precision))");
        if neg { assert!(b[0] == b'-'); } else if sign { assert!(b[0] == b'+'); } else if blank { assert!(b[0] == b' '); }
        // digits read back as the value, everything before them is 0-padding
        let mut val: u32 = 0; let mut i = signlen; while i < b.len() { assert!(b[i].is_ascii_digit(), "obligation: only digits after the sign"); val = val * 10 + (b[i] - b'0') as u32; i += 1; }
        assert!(val == iv as u32, "obligation: digits denote the value");
        kani::cover!(neg && padding == 7 && iv > 99);
    }

    /// %f / %e family: zero padding budget accounts for sign, dot and fraction, so the text never exceeds the width
    /// when the number would fit -- the forced dot of the # flag included
    #[kani::proof]
    #[kani::unwind(12)]
    fn h_render_float_width() {
        let pick: u8 = kani::any(); kani::assume(pick < 4);
        let n = [0.0f64, 3.0, -3.0, 12.0][pick as usize];
        let padding: u8 = kani::any(); kani::assume(padding <= 8);
        let ensure_pt: bool = kani::any(); let blank: bool = kani::any(); let sign: bool = kani::any();
        let mut natural = String::with_capacity(16);
        render_float(&mut natural, n, 0, 0, blank, sign, ensure_pt, true);
        let mut padded = String::with_capacity(16);
        render_float(&mut padded, n, padding as u16, 0, blank, sign, ensure_pt, true);
        assert!(padded.len() == core::cmp::max(padding as usize, natural.len()), "obligation: zero-padded %f text is exactly max(width, natural length) long");
        assert!(padded.as_bytes()[padded.len() - 1] == if ensure_pt { b'.' } else { natural.as_bytes()[natural.len() - 1] }, "obligation: # keeps the decimal point");
        kani::cover!(ensure_pt && padding == 5 && pick == 1);
    }
}
