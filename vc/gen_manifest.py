#!/usr/bin/env python3
"""Regenerates MANIFEST.json from the units present under vc/units (claimed properties) and the
fixed not-applicable list."""
import json, os, sys
HERE = os.path.dirname(os.path.abspath(__file__)); ROOT = os.path.dirname(HERE)
sys.path.insert(0, HERE)
import run

NA = {
 "C19": "semantic preservation by the formatter relates two parses of two texts produced through dprint-core's print-item IR and rowan generated node types; no function-level pre/postcondition expresses 'same AST'",
 "C20": "idempotence/termination of layout resolution (dprint_core solver, convergence loop) and crash-freedom on arbitrary token sequences through generated parser code: whole-pipeline, liveness-flavoured, outside both tools' reach",
}
CLAIMS = json.load(open(os.path.join(HERE, "claims.json")))

def technique_of(p, us):
    verus = [u["name"] for u in us if u.get("backend") == "verus"]
    np = nb = 0
    for u in us:
        for h in u.get("kani", {}).get("harnesses", []):
            if h.get("props") and p not in h["props"]:
                continue
            if h.get("level", "B") == "P": np += 1
            else: nb += 1
    parts = []
    if verus: parts.append("Verus/SMT pre- and postconditions, loop invariants and lemmas (units " + ", ".join(verus) + ")")
    if np: parts.append(f"Kani/CBMC harnesses that are complete for their function (loop-free, full symbolic domain): {np}")
    if nb: parts.append(f"Kani/CBMC bounded stand-ins with stated bounds (reported as bounded, never counted as proved): {nb}")
    return "contract-based deductive verification of functions extracted verbatim from /repo's working tree on every run (callee contracts as stand-ins, recursion cut at the callee contract): " + "; ".join(parts)


def main():
    units = run.all_units()
    props = sorted({p for u in units for p in u.get("serves", {})})
    checks = []
    for p in props:
        c = CLAIMS.get(p)
        if not c:
            print("no claim text for", p, file=sys.stderr); continue
        us = [u["name"] for u in units if p in u.get("serves", {})]
        checks.append({
            "property_id": p,
            "quick_cmd": f"./check {p} --tier quick",
            "thorough_cmd": f"./check {p} --tier thorough",
            "evidence_file": f"evidence/{p}.json",
            "replay_cmd_template": "./check --replay {path}",
            "engine": "vc",
            "level_claimed": {"category": c.get("category", "proof"), "text": c["text"], "design_ref": f"DESIGN.md §2 {p}"},
            "level_note": c["note"] + " Units: " + ", ".join(us) + ".",
            "technique": c.get("technique", technique_of(p, [u for u in units if p in u.get("serves", {})])),
        })
    na = [{"property_id": k, "reason": v} for k, v in NA.items() if k not in props]
    for p in [f"C{i:02d}" for i in range(1, 21)]:
        if p not in props and p not in NA:
            na.append({"property_id": p, "reason": "claim planned in DESIGN.md but no unit built yet; nothing is registered for it"})
    m = {
        "version": 1,
        "setup_cmd": "true",
        "hooks": {"guard": "none", "enable": "no hooks: all verified text is extracted mechanically from /repo's working tree on every run (vc/extract.py)",
                  "baseline_off_cmd": "cd /repo && cargo test --workspace --no-fail-fast --offline", "source_commits": [], "add_only": True},
        "engines": [{"name": "vc", "path": "vc/run.py", "serves_properties": props,
                     "kind_free_text": "contract-based deductive verification: Verus (single-file, SMT) and Kani/CBMC on functions extracted verbatim from /repo on every run"}],
        "checks": checks,
        "not_applicable": sorted(na, key=lambda x: x["property_id"]),
        "notes": "Exit 2 = undecided (lost anchor / unsupported construct / timeout / vacuity canary), never an alarm. Bounded obligations are listed separately in evidence (coverage.bounded_obligations) and never counted as discharged proof obligations.",
    }
    json.dump(m, open(os.path.join(ROOT, "MANIFEST.json"), "w"), indent=1)
    print("claimed:", props)

main()
