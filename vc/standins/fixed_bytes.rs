// Fixed-capacity stand-ins for std `String`, `Vec<T>` and `vec!` (HAND-WRITTEN, TRUSTED).
// Extracted code that says `String` / `Vec` / `vec![..]` resolves to these because they are defined in the
// crate root of the generated file.  They keep CBMC away from the allocator (symbolic-size realloc / memcpy is
// what makes std String code intractable).  Exceeding the capacity is a harness assertion failure, never silent.
pub const SCAP: usize = 72;
#[derive(Clone, Copy)]
#[repr(C)]
pub struct Vec<T: Copy> { pub buf: [T; SCAP], pub len: usize }
impl<T: Copy + Default> Vec<T> {
    pub fn new() -> Self { Vec { buf: [T::default(); SCAP], len: 0 } }
    pub fn with_capacity(_c: usize) -> Self { Self::new() }
    pub fn reserve(&mut self, _n: usize) {}
    pub fn push(&mut self, v: T) { assert!(self.len < SCAP, "stand-in Vec capacity exceeded"); self.buf[self.len] = v; self.len += 1; }
    pub fn pop(&mut self) -> Option<T> { if self.len == 0 { None } else { self.len -= 1; Some(self.buf[self.len]) } }
    pub fn len(&self) -> usize { self.len }
    pub fn is_empty(&self) -> bool { self.len == 0 }
    pub fn swap(&mut self, a: usize, b: usize) { assert!(a < self.len && b < self.len); let t = self.buf[a]; self.buf[a] = self.buf[b]; self.buf[b] = t; }
    pub fn extend_from_slice(&mut self, s: &[T]) { let mut i = 0; while i < s.len() { self.push(s[i]); i += 1; } }
    pub fn as_slice(&self) -> &[T] { &self.buf[..self.len] }
    pub fn iter(&self) -> std::slice::Iter<'_, T> { self.buf[..self.len].iter() }
    pub fn into_iter(self) -> FixedIter<T> { FixedIter { v: self, lo: 0, hi: self.len } }
}
impl<T: Copy> std::ops::Index<usize> for Vec<T> { type Output = T; fn index(&self, i: usize) -> &T { assert!(i < self.len, "stand-in Vec index out of bounds"); &self.buf[i] } }
impl<T: Copy + PartialEq> PartialEq for Vec<T> { fn eq(&self, o: &Self) -> bool { if self.len != o.len { return false; } let mut i = 0; while i < self.len { if self.buf[i] != o.buf[i] { return false; } i += 1; } true } }
#[derive(Clone, Copy)]
pub struct FixedIter<T: Copy> { v: Vec<T>, lo: usize, hi: usize }
impl<T: Copy> Iterator for FixedIter<T> { type Item = T; fn next(&mut self) -> Option<T> { if self.lo < self.hi { self.lo += 1; Some(self.v.buf[self.lo - 1]) } else { None } } }
impl<T: Copy> DoubleEndedIterator for FixedIter<T> { fn next_back(&mut self) -> Option<T> { if self.lo < self.hi { self.hi -= 1; Some(self.v.buf[self.hi]) } else { None } } }
impl<T: Copy + Default> IntoIterator for Vec<T> { type Item = T; type IntoIter = FixedIter<T>; fn into_iter(self) -> FixedIter<T> { FixedIter { v: self, lo: 0, hi: self.len } } }
macro_rules! vec {
    () => { Vec::new() };
    ($($x:expr),+ $(,)?) => {{ let mut v = Vec::new(); $( v.push($x); )+ v }};
}

/// ASCII/UTF-8 byte buffer standing in for std::string::String (same field layout as the stand-in Vec<u8>,
/// so that the `String -> Vec<u8>` pointer cast in escape_string_json_buf stays meaningful)
#[derive(Clone, Copy)]
#[repr(transparent)]
pub struct String { pub v: Vec<u8> }
impl String {
    pub fn new() -> Self { String { v: Vec::new() } }
    pub fn with_capacity(_c: usize) -> Self { Self::new() }
    pub fn reserve(&mut self, _n: usize) {}
    pub fn push(&mut self, c: char) { let mut b = [0u8; 4]; let s = c.encode_utf8(&mut b); self.push_str(s); }
    pub fn push_str(&mut self, s: &str) { let b = s.as_bytes(); let mut i = 0; while i < b.len() { self.v.push(b[i]); i += 1; } }
    pub fn len(&self) -> usize { self.v.len }
    pub fn is_empty(&self) -> bool { self.v.len == 0 }
    pub fn as_bytes(&self) -> &[u8] { &self.v.buf[..self.v.len] }
    pub fn truncate(&mut self, n: usize) { if n < self.v.len { self.v.len = n; } }
    pub fn as_str(&self) -> &str { unsafe { std::str::from_utf8_unchecked(&self.v.buf[..self.v.len]) } }
}
impl std::ops::Deref for String { type Target = str; fn deref(&self) -> &str { self.as_str() } }
impl std::ops::AddAssign<&str> for String { fn add_assign(&mut self, s: &str) { self.push_str(s) } }
impl std::fmt::Write for String { fn write_str(&mut self, s: &str) -> std::fmt::Result { self.push_str(s); Ok(()) } }
impl From<std::string::String> for String { fn from(s: std::string::String) -> Self { let mut o = String::new(); o.push_str(&s); o } }
impl From<&str> for String { fn from(s: &str) -> Self { let mut o = String::new(); o.push_str(s); o } }
/// std String::from_utf8 / from_utf8_lossy on the stand-in types (validity via core::str::from_utf8 on the used prefix)
pub struct FromUtf8Error;
impl String {
    pub fn from_utf8(v: Vec<u8>) -> Result<String, FromUtf8Error> { if utf8_valid(&v.buf[..v.len]) { Ok(String { v }) } else { Err(FromUtf8Error) } }
    pub fn from_utf8_lossy(b: &[u8]) -> std::borrow::Cow<'static, str> {
        // exact for the inputs the harnesses use (<= 1 byte): a valid byte is itself, an invalid one becomes U+FFFD
        if b.len() == 0 { std::borrow::Cow::Borrowed("") } else if b.len() == 1 && b[0] < 0x80 { std::borrow::Cow::Owned(std::string::String::from(b[0] as char)) } else { assert!(b.len() == 1, "stand-in from_utf8_lossy: harness bound"); std::borrow::Cow::Borrowed("\u{FFFD}") }
    }
}
/// UTF-8 validity for short buffers (<= 4 bytes): written out, no std validation loop
pub fn utf8_valid(b: &[u8]) -> bool {
    let mut i = 0;
    while i < b.len() {
        let c = b[i];
        let need = if c < 0x80 { 0 } else if c >= 0xC2 && c <= 0xDF { 1 } else if c >= 0xE0 && c <= 0xEF { 2 } else if c >= 0xF0 && c <= 0xF4 { 3 } else { return false };
        if i + need >= b.len() + 0 && need > 0 && i + need > b.len() - 1 { return false; }
        let mut k = 1; while k <= need { if b[i + k] & 0xC0 != 0x80 { return false; } k += 1; }
        i += need + 1;
    }
    true
}
