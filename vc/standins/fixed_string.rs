// Fixed-capacity stand-ins for std `String`, `Vec<T>` and `vec!` (HAND-WRITTEN, TRUSTED).
// Extracted code that says `String` / `Vec` / `vec![..]` resolves to these because they are defined in the
// crate root of the generated file.  They keep CBMC away from the allocator (symbolic-size realloc / memcpy is
// what makes std String code intractable).  Exceeding the capacity is a harness assertion failure, never silent.
pub const SCAP: usize = 40;
pub const VCAP: usize = 8;
#[derive(Debug)]
pub struct Vec<T> { pub buf: [Option<T>; VCAP], pub len: usize }
impl<T> Vec<T> {
    pub fn new() -> Self { Vec { buf: [None, None, None, None, None, None, None, None], len: 0 } }
    pub fn with_capacity(_c: usize) -> Self { Self::new() }
    pub fn reserve(&mut self, _n: usize) {}
    pub fn push(&mut self, v: T) { assert!(self.len < VCAP, "stand-in Vec capacity exceeded"); self.buf[self.len] = Some(v); self.len += 1; }
    pub fn pop(&mut self) -> Option<T> { if self.len == 0 { None } else { self.len -= 1; self.buf[self.len].take() } }
    pub fn len(&self) -> usize { self.len }
    pub fn is_empty(&self) -> bool { self.len == 0 }
    pub fn swap(&mut self, a: usize, b: usize) { assert!(a < self.len && b < self.len); self.buf.swap(a, b); }
    pub fn into_iter(self) -> FixedIter<T> { let hi = self.len; FixedIter { v: self, lo: 0, hi } }
}
impl<T> std::ops::Index<usize> for Vec<T> { type Output = T; fn index(&self, i: usize) -> &T { assert!(i < self.len, "stand-in Vec index out of bounds"); self.buf[i].as_ref().unwrap() } }
impl<T: PartialEq> PartialEq for Vec<T> { fn eq(&self, o: &Self) -> bool { if self.len != o.len { return false; } let mut i = 0; while i < self.len { if self.buf[i] != o.buf[i] { return false; } i += 1; } true } }
impl<T: Clone> Clone for Vec<T> { fn clone(&self) -> Self { let mut v = Vec::new(); let mut i = 0; while i < self.len { v.push(self.buf[i].clone().unwrap()); i += 1; } v } }
pub struct FixedIter<T> { v: Vec<T>, lo: usize, hi: usize }
impl<T> Iterator for FixedIter<T> { type Item = T; fn next(&mut self) -> Option<T> { if self.lo < self.hi { self.lo += 1; self.v.buf[self.lo - 1].take() } else { None } } }
impl<T> DoubleEndedIterator for FixedIter<T> { fn next_back(&mut self) -> Option<T> { if self.lo < self.hi { self.hi -= 1; self.v.buf[self.hi].take() } else { None } } }
impl<T> IntoIterator for Vec<T> { type Item = T; type IntoIter = FixedIter<T>; fn into_iter(self) -> FixedIter<T> { let hi = self.len; FixedIter { v: self, lo: 0, hi } } }
macro_rules! vec {
    () => { Vec::new() };
    ($($x:expr),+ $(,)?) => {{ let mut v = Vec::new(); $( v.push($x); )+ v }};
}

/// UTF-8 byte buffer standing in for std::string::String
#[derive(Clone, Copy)]
pub struct String { pub buf: [u8; SCAP], pub n: usize }
impl String {
    pub fn new() -> Self { String { buf: [0; SCAP], n: 0 } }
    pub fn with_capacity(_c: usize) -> Self { Self::new() }
    pub fn reserve(&mut self, _n: usize) {}
    pub fn push(&mut self, c: char) { let mut b = [0u8; 4]; let s = c.encode_utf8(&mut b); self.push_str(s); }
    pub fn push_str(&mut self, s: &str) { let b = s.as_bytes(); let mut i = 0; while i < b.len() { assert!(self.n < SCAP, "stand-in String capacity exceeded"); self.buf[self.n] = b[i]; self.n += 1; i += 1; } }
    pub fn len(&self) -> usize { self.n }
    pub fn is_empty(&self) -> bool { self.n == 0 }
    pub fn as_bytes(&self) -> &[u8] { &self.buf[..self.n] }
    pub fn as_str(&self) -> &str { unsafe { std::str::from_utf8_unchecked(&self.buf[..self.n]) } }
    pub fn truncate(&mut self, n: usize) { if n < self.n { self.n = n; } }
    pub fn clear(&mut self) { self.n = 0; }
}
impl std::ops::Deref for String { type Target = str; fn deref(&self) -> &str { self.as_str() } }
impl std::ops::AddAssign<&str> for String { fn add_assign(&mut self, s: &str) { self.push_str(s) } }
