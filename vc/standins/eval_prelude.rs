// Stand-in environment for functions extracted from jrsonnet-evaluator (Kani units).
// Everything here is HAND-WRITTEN and TRUSTED; nothing in it is verified.
// It only has to (a) type-check the extracted text and (b) behave like the real
// thing on the paths a harness actually exercises (documented per unit).
#![allow(unused, dead_code, non_snake_case, unreachable_code, unreachable_patterns, clippy::all)]
use std::cmp::Ordering;

#[derive(Debug, Clone, Copy, PartialEq, Eq)]
pub enum ValType { Bool, Null, Str, Num, Arr, Obj, Func }

#[derive(Debug, Clone)]
pub enum ErrorKind {
    RuntimeError(&'static str),
    InfiniteRecursionDetected,
    DivisionByZero,
    UnaryOperatorDoesNotOperateOnType(UnaryOpType, ValType),
    BinaryOperatorDoesNotOperateOnValues(BinaryOpType, ValType, ValType),
    ValueIsNotIndexable(ValType),
    ConvertNum(ConvertNumValueError),
    Other(&'static str),
}
pub use ErrorKind::*;
#[derive(Debug, Clone)]
pub struct Error(pub ErrorKind);
impl Error { pub fn new(e: ErrorKind) -> Self { Error(e) } }
impl From<ErrorKind> for Error { fn from(e: ErrorKind) -> Self { Error(e) } }
impl From<ConvertNumValueError> for ErrorKind { fn from(e: ConvertNumValueError) -> Self { ErrorKind::ConvertNum(e) } }
pub type Result<T, E = Error> = std::result::Result<T, E>;

// same three arms as crates/jrsonnet-evaluator/src/error.rs `bail!`; the literal arm keeps
// only the format string (no interner, no formatting machinery)
macro_rules! bail {
    ($w:ident$(::$i:ident)*$(($($tt:tt)*))?) => { return Err($w$(::$i)*$(($($tt)*))?.into()) };
    ($w:ident$(::$i:ident)*$({$($tt:tt)*})?) => { return Err($w$(::$i)*$({$($tt)*})?.into()) };
    ($l:literal$(, $($tt:tt)*)?) => { return Err(ErrorKind::RuntimeError($l).into()) };
}

// ---- strings: &'static str handle (no Drop glue => Val stays trivially droppable for CBMC)
#[derive(Debug, Clone, PartialEq, Eq, PartialOrd, Ord, Hash)]
pub struct IStr(pub &'static str);
impl IStr { pub fn is_empty(&self) -> bool { self.0.is_empty() } pub fn as_str(&self) -> &str { self.0 } pub fn len(&self) -> usize { self.0.len() } }
impl From<&'static str> for IStr { fn from(s: &'static str) -> Self { IStr(s) } }
impl From<String> for IStr { fn from(s: String) -> Self { IStr(Box::leak(s.into_boxed_str())) } }
impl std::fmt::Display for IStr { fn fmt(&self, f: &mut std::fmt::Formatter<'_>) -> std::fmt::Result { f.write_str(self.0) } }
impl std::ops::Deref for IStr { type Target = str; fn deref(&self) -> &str { self.0 } }

#[derive(Debug, Clone, PartialEq, Eq, PartialOrd, Ord)]
pub struct StrValue(pub IStr);
impl StrValue {
    pub fn concat(a: Self, b: Self) -> Self { StrValue(IStr::from(format!("{}{}", a.0, b.0))) }
    pub fn into_flat(self) -> IStr { self.0 }
    pub fn is_empty(&self) -> bool { self.0.is_empty() }
    pub fn len(&self) -> usize { self.0.len() }
}
impl<T> From<T> for StrValue where IStr: From<T> { fn from(v: T) -> Self { StrValue(IStr::from(v)) } }
impl std::fmt::Display for StrValue { fn fmt(&self, f: &mut std::fmt::Formatter<'_>) -> std::fmt::Result { f.write_str(self.0 .0) } }

// ---- arrays / objects / functions: OPAQUE handles (never constructed by the harnesses that
// include this file; they exist so that the non-numeric match arms of extracted code type-check).
// Deliberately non-recursive: a Val-containing stand-in makes CBMC unwind Val's drop glue forever.
#[derive(Debug, Clone)]
pub struct ArrValue(pub u8);
impl ArrValue {
    pub fn len(&self) -> usize { 0 }
    pub fn is_empty(&self) -> bool { true }
    pub fn iter(&self) -> impl Iterator<Item = Result<Val>> + '_ { std::iter::empty() }
    pub fn ptr_eq(a: &Self, b: &Self) -> bool { a.0 == b.0 }
    pub fn extended(a: Self, _b: Self) -> Self { a }
    pub fn get(&self, _i: usize) -> Result<Option<Val>> { Ok(None) }
}
#[derive(Debug, Clone)]
pub struct ObjValue(pub u8);
impl ObjValue {
    pub fn ptr_eq(a: &Self, b: &Self) -> bool { a.0 == b.0 }
    pub fn fields(&self) -> Vec<IStr> { Vec::new() }
    pub fn get(&self, _k: IStr) -> Result<Option<Val>> { Ok(None) }
    pub fn has_field_ex(&self, _k: IStr, _hidden: bool) -> bool { false }
    pub fn extend_from(&self, _sup: Self) -> Self { self.clone() }
}
#[derive(Debug, Clone)]
pub struct FuncVal;

pub struct ToStringFormat;
pub trait ManifestFormat { fn manifest(&self, v: Val) -> Result<String>; }
impl ManifestFormat for ToStringFormat { fn manifest(&self, _v: Val) -> Result<String> { Ok(String::new()) } }
pub fn std_format(_s: &IStr, _v: Val) -> Result<String> { Ok(String::new()) }
pub trait IntoUntyped: Sized { fn into_untyped(v: Self) -> Result<Val>; }
impl IntoUntyped for String { fn into_untyped(v: Self) -> Result<Val> { Ok(Val::Str(StrValue(IStr::from(v)))) } }
impl IntoUntyped for f64 { fn into_untyped(v: Self) -> Result<Val> { Ok(Val::Num(NumValue::new(v).ok_or_else(|| Error(ErrorKind::Other("non-finite")))?)) } }
