// Fixed-capacity stand-in for std `String` only (HAND-WRITTEN, TRUSTED); std Vec stays real in units that include this file.
pub const SCAP: usize = 64;
/// UTF-8 byte buffer standing in for std::string::String
#[derive(Clone, Copy)]
pub struct String { pub buf: [u8; SCAP], pub n: usize }
impl String {
    pub fn new() -> Self { String { buf: [0; SCAP], n: 0 } }
    pub fn with_capacity(_c: usize) -> Self { Self::new() }
    pub fn reserve(&mut self, _n: usize) {}
    pub fn push(&mut self, c: char) { let mut b = [0u8; 4]; let s = c.encode_utf8(&mut b); self.push_str(s); }
    pub fn push_str(&mut self, s: &str) { let b = s.as_bytes(); let mut i = 0; while i < b.len() { assert!(self.n < SCAP, "stand-in String capacity exceeded"); self.buf[self.n] = b[i]; self.n += 1; i += 1; } }
    pub fn len(&self) -> usize { self.n }
    pub fn is_empty(&self) -> bool { self.n == 0 }
    pub fn as_bytes(&self) -> &[u8] { &self.buf[..self.n] }
    pub fn as_str(&self) -> &str { unsafe { std::str::from_utf8_unchecked(&self.buf[..self.n]) } }
}
impl std::ops::Deref for String { type Target = str; fn deref(&self) -> &str { self.as_str() } }
impl std::ops::AddAssign<&str> for String { fn add_assign(&mut self, s: &str) { self.push_str(s) } }
impl From<&str> for String { fn from(s: &str) -> Self { let mut o = String::new(); o.push_str(s); o } }
impl std::fmt::Write for String { fn write_str(&mut self, s: &str) -> std::fmt::Result { self.push_str(s); Ok(()) } }
impl std::fmt::Display for String { fn fmt(&self, f: &mut std::fmt::Formatter<'_>) -> std::fmt::Result { f.pad(self.as_str()) } }
