#!/usr/bin/env python3
"""usage: gen.py <unit> -- only (re)generate build/<unit>/gen.rs from the unit's template and /repo (debug aid)"""
import os, sys
sys.path.insert(0, os.path.dirname(os.path.abspath(__file__)))
import extract, run
u = run.load_unit(sys.argv[1])
tpl = open(os.path.join(u["dir"], u.get("template", "harness.rs"))).read()
gen, regions = extract.process(tpl, u["name"]); extract.verify_identity(gen, regions)
d = os.path.join(run.BUILD, u["name"]); os.makedirs(d, exist_ok=True)
open(os.path.join(d, "gen.rs"), "w").write(gen); print(os.path.join(d, "gen.rs"))
