"""Build and run the REAL jrsonnet binary from /repo's current working tree (replay only)."""
import os, subprocess
ROOT = os.path.dirname(os.path.dirname(os.path.abspath(__file__)))
REPO = os.environ.get("VERIF_REPO", "/repo")
TARGET = os.path.join(os.environ.get("VERIF_BUILD", os.path.join(ROOT, "build")), "target-repo")
_built = {}

def binary():
    if "bin" in _built:
        return _built["bin"]
    env = dict(os.environ, CARGO_TARGET_DIR=TARGET, CARGO_NET_OFFLINE="true")
    r = subprocess.run(["cargo", "build", "-q", "-p", "jrsonnet", "--offline"], cwd=REPO, env=env, capture_output=True, text=True, timeout=1800)
    if r.returncode != 0:
        raise RuntimeError("cargo build of the real jrsonnet failed: " + r.stderr[-1500:])
    _built["bin"] = os.path.join(TARGET, "debug", "jrsonnet")
    return _built["bin"]

def run_jsonnet(expr, args=(), timeout=60, env=None):
    """returns (returncode, stdout, stderr)"""
    e = dict(os.environ)
    e.update(env or {})
    r = subprocess.run([binary(), *args, "-e", expr], capture_output=True, text=True, timeout=timeout, env=e, cwd="/")
    return r.returncode, r.stdout, r.stderr
