#!/usr/bin/env python3
"""T3 mechanical item extractor.

Pulls named items out of the *current working tree* of /repo and splices them,
byte for byte, into a template.  No regular expression is ever applied to a code
body: items are located by a small Rust-token-aware scanner (comments, string /
raw-string / char literals and lifetimes are recognised so that braces inside
them do not count) and delimited by brace matching.

Template directives (each on its own line, leading whitespace allowed):

  //@item  <file> :: <selector> [keep-attrs] [keep-pub] [rename=A->B]*
        the whole item (attributes dropped per R1, `pub` dropped per R3)
  //@body  <file> :: <selector>
        only the `{ ... }` body of a fn; the template line(s) *before* it carry
        the Verus signature + contract.  Must be followed by
  //@sig   <expected signature, whitespace-insensitive>
        (compared with the source signature; mismatch => LostAnchor)
  //@ghost <id> loop <n>          ... //@endghost
  //@ghost <id> before "<text>"   ... //@endghost
  //@ghost <id> after "<text>"    ... //@endghost
  //@ghost <id> start             ... //@endghost
        ghost text (invariants, proof blocks, asserts) injected into the body
        extracted under //@body id=<id>.  Every injected line is tagged
        `//@ghost` in the generated file so that it can be stripped again.

Selectors:  `fn name`, `impl <header>`, `struct N`, `enum N`, `const N`,
`static N`, `type N`, `trait N`, `mod N`, `macro_rules! N`; nested with ` > `,
e.g. `impl ArrayLike for SliceArray > fn len`.  An ordinal `#2` picks the 2nd
match (e.g. two `impl Foo` blocks).

Closed rewrite list (anything else is not done):
  R1 drop outer attributes  #[derive..] #[trace..] #[builtin..] #[allow..]
     #[inline..] #[must_use] #[cold] #[doc..] and doc comments on the item head
  R2 drop any item / match arm / argument / field preceded by
     #[cfg(feature = "exp-...")] (off in the default build) together with that
     attribute
  R3 drop `pub` / `pub(crate)` / `pub(super)` in front of items and fields
  R4/R5 are template-side (the template supplies `impl T {` itself).

After generation `verify_identity` re-derives the executable text from the
generated file (drops `//@ghost` lines, cuts the marked region) and compares it
with the freshly rewritten source region, whitespace-insensitively.
"""
import hashlib
import os
import re
import sys

REPO = os.environ.get("VERIF_REPO", "/repo")


class LostAnchor(Exception):
    pass


class Unsupported(Exception):
    pass


# --------------------------------------------------------------------------
# scanner
# --------------------------------------------------------------------------

def scan(text):
    """Yield (kind, start, end) for every lexical element that matters.
    kinds: 'ws', 'comment', 'str', 'char', 'life', 'ident', 'punct'.
    """
    i, n = 0, len(text)
    out = []
    while i < n:
        c = text[i]
        if c in " \t\r\n":
            j = i + 1
            while j < n and text[j] in " \t\r\n":
                j += 1
            out.append(("ws", i, j)); i = j; continue
        if text.startswith("//", i):
            j = text.find("\n", i)
            if j < 0:
                j = n
            out.append(("comment", i, j)); i = j; continue
        if text.startswith("/*", i):
            depth, j = 1, i + 2
            while j < n and depth:
                if text.startswith("/*", j):
                    depth += 1; j += 2
                elif text.startswith("*/", j):
                    depth -= 1; j += 2
                else:
                    j += 1
            out.append(("comment", i, j)); i = j; continue
        # raw strings r"..", r#".."#, br#".."#
        m = re.match(r'(?:b|c)?r(#*)"', text[i:i + 40])
        if m and (i == 0 or not (text[i - 1].isalnum() or text[i - 1] == "_")):
            hashes = m.group(1)
            close = '"' + hashes
            j = text.find(close, i + m.end())
            if j < 0:
                raise Unsupported("unterminated raw string")
            j += len(close)
            out.append(("str", i, j)); i = j; continue
        if c == '"' or (c in "bc" and i + 1 < n and text[i + 1] == '"' and
                        (i == 0 or not (text[i - 1].isalnum() or text[i - 1] == "_"))):
            j = i + (1 if c == '"' else 2)
            while j < n and text[j] != '"':
                j += 2 if text[j] == "\\" else 1
            j += 1
            out.append(("str", i, j)); i = j; continue
        if c == "'" or (c == "b" and i + 1 < n and text[i + 1] == "'" and
                        (i == 0 or not (text[i - 1].isalnum() or text[i - 1] == "_"))):
            k = i + (1 if c == "'" else 2)
            if k < n and text[k] == "\\":
                j = k + 2
                while j < n and text[j] != "'":
                    j += 1
                j += 1
                out.append(("char", i, j)); i = j; continue
            if k + 1 < n and text[k + 1] == "'" and text[k] != "'":
                out.append(("char", i, k + 2)); i = k + 2; continue
            # non-ASCII char literal 'é' : next quote within 5 bytes and no ident chars rule
            if k < n and ord(text[k]) > 127 and k + 1 < n and text[k + 1] == "'":
                out.append(("char", i, k + 2)); i = k + 2; continue
            # lifetime
            j = k
            while j < n and (text[j].isalnum() or text[j] == "_"):
                j += 1
            out.append(("life", i, j)); i = j; continue
        if c.isalpha() or c == "_":
            j = i + 1
            while j < n and (text[j].isalnum() or text[j] == "_"):
                j += 1
            out.append(("ident", i, j)); i = j; continue
        if c.isdigit():
            j = i + 1
            while j < n and (text[j].isalnum() or text[j] == "_" or
                             (text[j] == "." and j + 1 < n and text[j + 1].isdigit())):
                j += 1
            out.append(("ident", i, j)); i = j; continue
        out.append(("punct", i, i + 1)); i += 1
    return out


OPEN = {"{": "}", "(": ")", "[": "]"}
CLOSE = {v: k for k, v in OPEN.items()}


class Src:
    def __init__(self, text, name="<text>"):
        self.text = text
        self.name = name
        self.toks = scan(text)
        # significant tokens only (no ws/comment)
        self.sig = [t for t in self.toks if t[0] not in ("ws", "comment")]
        self.match = {}
        stack = []
        for idx, (k, s, e) in enumerate(self.sig):
            if k != "punct":
                continue
            ch = text[s]
            if ch in OPEN:
                stack.append((ch, idx))
            elif ch in CLOSE:
                if not stack or stack[-1][0] != CLOSE[ch]:
                    raise Unsupported(f"{name}: unbalanced '{ch}' at byte {s}")
                _, o = stack.pop()
                self.match[o] = idx
                self.match[idx] = o
        if stack:
            raise Unsupported(f"{name}: unclosed '{stack[-1][0]}'")

    def tok(self, idx):
        k, s, e = self.sig[idx]
        return self.text[s:e]


KEYWORDS_ITEM = {"fn", "impl", "struct", "enum", "const", "static", "type", "trait", "mod", "macro_rules", "union"}
QUALIFIERS = {"pub", "const", "unsafe", "async", "extern", "default"}


def norm(s):
    return re.sub(r"\s+", "", s)


def _attr_start(src, idx):
    """Given index of first token of an item head, walk back over #[..] attrs
    (and visibility/qualifiers). Returns sig-token index of the first token
    belonging to the item (attributes included)."""
    i = idx
    while True:
        # qualifiers
        if i - 1 >= 0 and src.sig[i - 1][0] == "ident" and src.tok(i - 1) in QUALIFIERS:
            i -= 1; continue
        # extern "C"
        if i - 2 >= 0 and src.sig[i - 1][0] == "str" and src.tok(i - 2) == "extern":
            i -= 2; continue
        # pub(crate)
        if i - 1 >= 0 and src.tok(i - 1) == ")" and (i - 1) in src.match:
            o = src.match[i - 1]
            if o - 1 >= 0 and src.tok(o - 1) == "pub":
                i = o - 1; continue
        # attribute #[...]
        if i - 1 >= 0 and src.tok(i - 1) == "]" and (i - 1) in src.match:
            o = src.match[i - 1]
            if o - 1 >= 0 and src.tok(o - 1) == "#":
                i = o - 1; continue
        break
    return i


def _impl_header_matches(header, name):
    """exact (whitespace-insensitive) header match, or -- for a selector `impl ~Trait for Type` -- any impl block whose
    header names that trait (last path segment) for that type, whatever generics / path prefix / where clause it carries"""
    if name.startswith("~"):
        m = re.match(r"^~\s*(\w+)\s+for\s+(\w+)$", name.strip())
        if not m:
            raise LostAnchor(f"bad fuzzy impl selector '{name}'")
        h = " ".join(header.split())
        return re.search(r"(^|[^\w])%s\s+for\s+%s([^\w]|$)" % (m.group(1), m.group(2)), h) is not None
    return norm(header) == norm(name) or norm(header).startswith(norm(name) + "where")


def find_items(src, lo, hi, kind, name, deep=False):
    """Find items of `kind` named/headed `name` among sig-tokens [lo,hi) at
    nesting depth 0 relative to that range (any depth with deep=True).  Returns list of dicts."""
    res = []
    i = lo
    while i < hi:
        k, s, e = src.sig[i]
        t = src.text[s:e]
        if k == "punct" and t in OPEN and not deep:
            i = src.match[i] + 1
            continue
        if k == "ident" and t == kind and kind != "macro_rules":
            # `const fn` / `const N`: for kind=='const' the next token must be the name
            if kind == "impl":
                # header up to first '{' at depth 0
                j = i + 1
                while j < hi and src.tok(j) != "{":
                    if src.tok(j) in OPEN:
                        j = src.match[j]
                    j += 1
                if j >= hi:
                    i += 1
                    continue
                header = src.text[src.sig[i + 1][1]:src.sig[j][1]]
                if _impl_header_matches(header, name):
                    res.append(_mk_item(src, i, j, src.match[j]))
                    i = src.match[j] + 1
                    continue
                i = (i + 1) if deep else (src.match[j] + 1)
                continue
            if i + 1 < hi and src.sig[i + 1][0] == "ident" and src.tok(i + 1) == name:
                # locate end: first '{' or ';' at depth 0
                j = i + 2
                while j < hi and src.tok(j) not in ("{", ";"):
                    if src.tok(j) in OPEN:
                        j = src.match[j]
                    elif src.tok(j) == "=" and kind in ("const", "static", "type"):
                        # skip initializer to ';'
                        j += 1
                        while src.tok(j) != ";":
                            if src.tok(j) in OPEN:
                                j = src.match[j]
                            j += 1
                        break
                    j += 1
                if src.tok(j) == ";":
                    res.append(_mk_item(src, i, None, j))
                    i = j + 1
                else:
                    close = src.match[j]
                    res.append(_mk_item(src, i, j, close))
                    i = close + 1
                continue
        if kind == "macro_rules" and k == "ident" and t == "macro_rules" and \
                i + 2 < hi and src.tok(i + 1) == "!" and src.tok(i + 2) == name:
            j = i + 3
            close = src.match[j]
            res.append(_mk_item(src, i, j, close))
            i = close + 1
            continue
        i += 1
    return res


def _mk_item(src, head, open_idx, close_idx):
    first = _attr_start(src, head)
    start = src.sig[first][1]
    # include leading doc comments / attrs already; extend start to line start if only ws before
    ls = src.text.rfind("\n", 0, start) + 1
    if src.text[ls:start].strip() == "":
        start = ls
    end = src.sig[close_idx][2]
    d = {
        "first": first, "head": head, "open": open_idx, "close": close_idx,
        "start": start, "end": end,
        "head_start": src.sig[head][1],
    }
    if open_idx is not None:
        d["body_start"] = src.sig[open_idx][1]
        d["body_end"] = end
        # signature: from head (incl. qualifiers but not attrs) to '{'
        q = head
        while q - 1 >= first and src.sig[q - 1][0] in ("ident", "str") and \
                (src.tok(q - 1) in QUALIFIERS or src.sig[q - 1][0] == "str"):
            q -= 1
        if q - 1 >= first and src.tok(q - 1) == ")":
            o = src.match[q - 1]
            if src.tok(o - 1) == "pub":
                q = o - 1
        d["sig_text"] = src.text[src.sig[q][1]:src.sig[open_idx][1]]
    return d


def locate(src, selector, lo=0, hi=None):
    """selector: 'impl X for Y > fn len' -> item dict.  `#n` picks the n-th match,
    `#*` means: whichever of the matching blocks contains the rest of the selector."""
    if hi is None:
        hi = len(src.sig)
    parts = selector.split(" > ")
    part = parts[0].strip()
    deep = part.startswith("** ")        # `** struct X`: at any nesting depth (modules, fn bodies) inside the range
    if deep:
        part = part[3:].strip()
    m = re.match(r"^(.*?)(?:\s+#(\d+|\*))?$", part)
    part, ordinal = m.group(1), m.group(2)
    if part.startswith("macro_rules!"):
        kind, name = "macro_rules", part[len("macro_rules!"):].strip()
    elif part.startswith("impl<") or part.startswith("impl "):
        kind, name = "impl", part[4:]
    else:
        kind, _, name = part.partition(" ")
    if kind not in KEYWORDS_ITEM:
        raise LostAnchor(f"bad selector part '{part}'")
    items = find_items(src, lo, hi, kind, name.strip(), deep)
    rest = " > ".join(parts[1:])
    if ordinal == "*":
        found = []
        for it in items:
            if it["open"] is None:
                continue
            try:
                found.append(locate(src, rest, it["open"] + 1, it["close"]))
            except LostAnchor:
                pass
        if len(found) != 1:
            raise LostAnchor(f"{src.name}: '{selector}': {len(found)} matches among {len(items)} '{part}' blocks")
        return found[0]
    n = int(ordinal or 1)
    if len(items) < n:
        raise LostAnchor(f"{src.name}: '{part}' (#{n}) not found (selector '{selector}')")
    if not ordinal and len(items) > 1:
        raise LostAnchor(f"{src.name}: '{part}' is ambiguous ({len(items)} matches); add #n or #*")
    item = items[n - 1]
    if not rest:
        return item
    if item["open"] is None:
        raise LostAnchor(f"{src.name}: '{part}' has no body to descend into")
    return locate(src, rest, item["open"] + 1, item["close"])


# --------------------------------------------------------------------------
# rewrites R1-R3 on an item's text
# --------------------------------------------------------------------------

DROP_ATTRS = ("derive", "trace", "educe", "automatically_derived", "builtin", "allow", "inline", "must_use", "cold", "doc",
              "repr", "default", "error", "diagnostic", "expect", "typed", "clap", "command", "arg", "from")


R2_LOG = []   # texts dropped by R2 (cfg(feature = "exp-..."), cfg(test)) during the current process() call, for the evidence


STD_DERIVES = {"Debug", "Clone", "Copy", "PartialEq", "Eq", "PartialOrd", "Ord", "Hash", "Default"}


def rewrite(text, keep_attrs=False, keep_pub=False, name="<item>", std_derives=False):
    """Apply R1-R3 to `text` (an item or a body). Token-based."""
    src = Src(text, name)
    cut = []  # (start,end) byte ranges to delete
    sig = src.sig
    n = len(sig)
    i = 0
    while i < n:
        t = src.tok(i)
        if t == "#" and i + 1 < n and src.tok(i + 1) == "[":
            close = src.match[i + 1]
            inner = text[sig[i + 1][2]:sig[close][1]]
            an = inner.strip()
            aname = re.match(r"[A-Za-z_:]+", an).group(0) if re.match(r"[A-Za-z_:]+", an) else ""
            if aname == "cfg":
                mm = re.match(r'cfg\(\s*feature\s*=\s*"(exp-[^"]+)"\s*\)$', an)
                mn = re.match(r'cfg\(\s*not\(\s*feature\s*=\s*"(exp-[^"]+)"\s*\)\s*\)$', an)
                if mm:
                    # R2: drop the attribute and the following element
                    end = _element_end(src, close + 1)
                    s0 = sig[i][1]
                    e0 = sig[end][2]
                    cut.append((s0, e0))
                    R2_LOG.append(f"{name}: " + re.sub(r"\s+", " ", text[s0:e0])[:160])
                    i = end + 1
                    continue
                if mn:
                    cut.append((sig[i][1], sig[close][2]))
                    i = close + 1
                    continue
                if re.match(r"cfg\(\s*test\s*\)$", an):
                    end = _element_end(src, close + 1)
                    cut.append((sig[i][1], sig[end][2]))
                    i = end + 1
                    continue
                if re.match(r"cfg\(\s*(not\(\s*)?unix\s*\)?\s*\)$", an) or re.match(r'cfg\(\s*(not\(\s*)?target_family\s*=\s*"unix"\s*\)?\s*\)$', an):
                    # kept verbatim: the verification host is the (unix) platform the default build runs on
                    i = close + 1
                    continue
                raise Unsupported(f"{name}: cfg attribute outside R2: #[{an}]")
            if std_derives and aname == "derive":
                names = [x.strip() for x in an[an.index("(") + 1:an.rindex(")")].split(",") if x.strip()]
                keepn = [x for x in names if x in STD_DERIVES]
                cut.append((sig[i][1], sig[close][2], ("#[derive(" + ", ".join(keepn) + ")]") if keepn else ""))
            elif std_derives and aname == "default":
                pass
            elif not keep_attrs and aname in DROP_ATTRS:
                cut.append((sig[i][1], sig[close][2]))
            i = close + 1
            continue
        if not keep_pub and t == "pub" and sig[i][0] == "ident":
            e = sig[i][2]
            if i + 1 < n and src.tok(i + 1) == "(" and src.tok(i + 2) in ("crate", "super", "self", "in"):
                e = sig[src.match[i + 1]][2]
                cut.append((sig[i][1], e))
                i = src.match[i + 1] + 1
                continue
            cut.append((sig[i][1], e))
        i += 1
    # doc comments (R1) : drop `///` and `//!` lines
    if not keep_attrs:
        for k, s, e in src.toks:
            if k == "comment" and (text.startswith("///", s) or text.startswith("//!", s)):
                cut.append((s, e))
    cut.sort(key=lambda c: (c[0], c[1]))
    out, pos = [], 0
    for c in cut:
        s, e = c[0], c[1]
        if s < pos:
            continue
        out.append(text[pos:s])
        if len(c) > 2:
            out.append(c[2])
        pos = e
    out.append(text[pos:])
    return "".join(out)


def _element_end(src, i):
    """sig index of the last token of the element starting at sig index i:
    an item (ends with matching '}' or ';'), a match arm / field / argument
    (ends with ',' at depth 0, or before the closing bracket)."""
    n = len(src.sig)
    j = i
    # skip further attributes
    while src.tok(j) == "#" and src.tok(j + 1) == "[":
        j = src.match[j + 1] + 1
    first = src.tok(j)
    k = j
    is_item = first in KEYWORDS_ITEM or first in ("pub", "use")
    if first in ("if", "for", "while", "loop", "match", "{", "unsafe") and not is_item:
        # block-like statement: ends with its block (plus `else` chains)
        while k < n:
            t = src.tok(k)
            if t == "{":
                c = src.match[k]
                if c + 1 < n and src.tok(c + 1) == "else":
                    k = c + 2
                    continue
                return c
            if t in OPEN:
                k = src.match[k]
            k += 1
        return n - 1
    while k < n:
        t = src.tok(k)
        if t in CLOSE:
            return k - 1
        if t in OPEN:
            c = src.match[k]
            if t == "{" and is_item:
                return c
            # match arm with block body: `pat => { .. }` optionally followed by ','
            if t == "{" and k - 2 >= 0 and src.tok(k - 1) == ">" and src.tok(k - 2) == "=":
                if c + 1 < n and src.tok(c + 1) == ",":
                    return c + 1
                return c
            k = c + 1
            continue
        if t == "," and not is_item:
            return k
        if t == ";":
            return k
        k += 1
    return n - 1


# --------------------------------------------------------------------------
# template processing
# --------------------------------------------------------------------------

_cache = {}


_expand_lock = __import__("threading").Lock()
_expanded_done = {}


def expanded_path(crate):
    """`expanded:<crate>`: the crate's source after macro expansion (derives, cc_dyn!, ...), produced from the current working tree
    by the repository's own compiler: cargo rustc -p <crate> --lib -- -Zunpretty=expanded.  Regenerated once per process."""
    import subprocess
    build = os.environ.get("VERIF_BUILD", os.path.join(os.path.dirname(os.path.dirname(os.path.abspath(__file__))), "build"))
    out = os.path.join(build, "_expanded", crate + ".rs")
    with _expand_lock:
        if _expanded_done.get(crate) == REPO:
            return out
        os.makedirs(os.path.dirname(out), exist_ok=True)
        env = dict(os.environ); env["RUSTC_BOOTSTRAP"] = "1"; env["CARGO_NET_OFFLINE"] = "true"
        r = subprocess.run(["cargo", "rustc", "--offline", "-q", "-p", crate, "--lib", "--", "-Zunpretty=expanded"],
                           cwd=REPO, env=env, stdout=subprocess.PIPE, stderr=subprocess.PIPE, text=True, timeout=1800)
        if r.returncode != 0 or len(r.stdout) < 1000:
            raise LostAnchor(f"macro expansion of {crate} failed: {r.stderr[-600:]}")
        open(out, "w").write(r.stdout)
        _expanded_done[crate] = REPO
    return out


def load(relpath):
    if relpath.startswith("expanded:"):
        p = expanded_path(relpath[len("expanded:"):])
    else:
        p = relpath if os.path.isabs(relpath) else os.path.join(REPO, relpath)
    if p not in _cache:
        try:
            text = open(p, encoding="utf-8").read()
        except OSError as e:
            raise LostAnchor(f"cannot read {p}: {e}")
        _cache[p] = Src(text, relpath)
    return _cache[p]


def sha(s):
    return hashlib.sha256(s.encode()).hexdigest()[:16]


def loops_in(body_src):
    """sig indices of `{` opening each loop body (while/for/loop), in source order."""
    res = []
    sig = body_src.sig
    for i, (k, s, e) in enumerate(sig):
        if k == "ident" and body_src.text[s:e] in ("while", "for", "loop"):
            if body_src.text[s:e] == "for" and i > 0 and body_src.tok(i - 1) in ("impl", ">") :
                pass
            j = i + 1
            while j < len(sig) and body_src.tok(j) != "{":
                if body_src.tok(j) in OPEN:
                    j = body_src.match[j]
                j += 1
            if j < len(sig):
                res.append(j)
    return res


def tag(lines_text):
    return "".join(l + " //@ghost\n" for l in lines_text.rstrip("\n").split("\n"))


def process(template_text, tname="<template>"):
    """Returns (generated_text, regions) where regions is a list of dicts
    {id, file, selector, kind, sha, source_text(rewritten)}."""
    lines = template_text.split("\n")
    out = []
    regions = []
    del R2_LOG[:]
    ghosts = {}  # id -> list of (where, arg, text)
    # first pass: collect ghost blocks
    i = 0
    keep = []
    while i < len(lines):
        l = lines[i]
        st = l.strip()
        if st.startswith("//@ghost "):
            m = re.match(r'//@ghost\s+(\S+)\s+(loop|before|after|start)\s*(.*)$', st)
            if not m:
                raise Unsupported(f"{tname}: bad ghost directive: {st}")
            gid, where, arg = m.groups()
            buf = []
            i += 1
            while lines[i].strip() != "//@endghost":
                buf.append(lines[i]); i += 1
            ghosts.setdefault(gid, []).append((where, arg.strip(), "\n".join(buf)))
            i += 1
            continue
        keep.append(l)
        i += 1
    lines = keep
    i = 0
    while i < len(lines):
        l = lines[i]
        st = l.strip()
        if st.startswith("//@include "):
            inc = os.path.join(os.path.dirname(os.path.abspath(__file__)), "standins", st[len("//@include "):].strip())
            out.append(f"// ---- begin stand-in include {os.path.basename(inc)} (hand-written, trusted) ----")
            out.append(open(inc).read().rstrip("\n"))
            out.append("// ---- end stand-in include ----")
            i += 1
            continue
        if st.startswith("//@item ") or st.startswith("//@body "):
            kind = st[3:7]
            rest = st[8:].strip()
            spec, _, opts = rest.partition(" ;; ")
            file, _, selector = spec.partition(" :: ")
            file, selector = file.strip(), selector.strip()
            opts = opts.split()
            src = load(file)
            item = locate(src, selector)
            rid = next((o[3:] for o in opts if o.startswith("id=")), f"r{len(regions)}")
            if kind == "item":
                raw = src.text[item["start"]:item["end"]]
                rw = rewrite(raw, keep_attrs="keep-attrs" in opts, keep_pub="keep-pub" in opts,
                             name=f"{file}::{selector}", std_derives="std-derives" in opts)
                for o in opts:
                    if o.startswith("rename="):
                        a, b = o[7:].split("->")
                        if re.fullmatch(r"\w+", a):
                            rw = re.sub(r"\b%s\b" % re.escape(a), b, rw)
                        else:
                            rw = rw.replace(a, b)
                gen = rw
            else:
                if item["open"] is None:
                    raise LostAnchor(f"{file}::{selector} has no body")
                # signature check
                i += 1
                sg = lines[i].strip()
                if not sg.startswith("//@sig "):
                    raise Unsupported(f"{tname}: //@body must be followed by //@sig")
                exp = sg[7:]
                got = rewrite(item["sig_text"], name="sig")
                if norm(exp) != norm(got):
                    raise LostAnchor(f"{file}::{selector}: signature changed: expected `{exp.strip()}` got `{' '.join(got.split())}`")
                raw = src.text[item["body_start"]:item["body_end"]]
                rw = rewrite(raw, name=f"{file}::{selector}")
                gen = inject(rw, ghosts.get(rid, []), f"{file}::{selector}")
            regions.append({"id": rid, "file": file, "selector": selector, "kind": kind, "r2_dropped": [x for x in R2_LOG if x.startswith(f"{file}::{selector}:")],
                            "sha256": sha(raw), "rewritten": rw, "lines": raw.count("\n") + 1})
            out.append(f"//@begin {rid}")
            out.append(gen.rstrip("\n"))
            out.append(f"//@end {rid}")
        else:
            out.append(l)
        i += 1
    return "\n".join(out), regions


def inject(body, glist, name):
    if not glist:
        return body
    bsrc = Src(body, name)
    inserts = []  # (byte offset, text)
    for where, arg, text in glist:
        if where == "loop":
            n = int(arg)
            lp = loops_in(bsrc)
            if n < 1 or n > len(lp):
                raise LostAnchor(f"{name}: loop {n} not found ({len(lp)} loops)")
            off = bsrc.sig[lp[n - 1]][1]
            inserts.append((off, "\n" + tag(text)))
        elif where == "start":
            off = bsrc.sig[0][2]
            inserts.append((off, "\n" + tag(text)))
        else:
            needle = arg.strip()
            if needle.startswith('"') and needle.endswith('"'):
                needle = needle[1:-1]
            pos = body.find(needle)
            if pos < 0 or body.find(needle, pos + 1) >= 0:
                raise LostAnchor(f"{name}: ghost anchor text {needle!r} not found exactly once")
            if where == "before":
                off = body.rfind("\n", 0, pos) + 1
                inserts.append((off, tag(text)))
            else:
                off = body.find("\n", pos)
                off = len(body) if off < 0 else off + 1
                inserts.append((off, tag(text)))
    inserts.sort()
    out, pos = [], 0
    for off, t in inserts:
        out.append(body[pos:off]); out.append(t); pos = off
    out.append(body[pos:])
    return "".join(out)


def verify_identity(generated_text, regions):
    """Re-derive each region from the generated file and compare with a fresh
    extraction from the repository."""
    for r in regions:
        b = generated_text.find(f"//@begin {r['id']}\n")
        e = generated_text.find(f"\n//@end {r['id']}")
        if b < 0 or e < 0:
            raise Unsupported(f"region {r['id']} markers lost")
        seg = generated_text[b + len(f"//@begin {r['id']}\n"):e]
        seg = "\n".join(l for l in seg.split("\n") if not l.rstrip().endswith("//@ghost"))
        # fresh extraction
        _cache.clear()
        src = load(r["file"])
        item = locate(src, r["selector"])
        if r["kind"] == "item":
            raw = src.text[item["start"]:item["end"]]
        else:
            raw = src.text[item["body_start"]:item["body_end"]]
        if sha(raw) != r["sha256"]:
            raise Unsupported(f"region {r['id']}: source changed during run")
        if norm(seg) != norm(r["rewritten"]):
            raise Unsupported(f"region {r['id']}: identity re-check failed")
    return True


if __name__ == "__main__":
    t = open(sys.argv[1]).read()
    g, regs = process(t, sys.argv[1])
    verify_identity(g, regs)
    sys.stdout.write(g)
    for r in regs:
        print(f"// region {r['id']} {r['file']} :: {r['selector']} sha={r['sha256']}", file=sys.stderr)
