#!/bin/bash
# usage: seedmatrix.sh <seed dirs...>   -- runs the property's quick check against each seeded change in a scratch worktree
# (never touches /repo's working tree); results: /tmp/seedmatrix/<seed>.txt
set -u
W=/tmp/wt_seedrun; OUT=/tmp/seedmatrix; mkdir -p $OUT
cd /repo; [ -d $W ] || git worktree add -q --detach $W HEAD
(cd $W && git checkout -q --detach $(git -C /repo rev-parse HEAD) && git reset -q --hard HEAD)
export VERIF_REPO=$W VERIF_BUILD=/tmp/seedmatrix/build VERIF_EVID=/tmp/seedmatrix/evidence VERIF_VIOL=/tmp/seedmatrix/violations VERIF_JOBS=${VERIF_JOBS:-8}
for d in "$@"; do
  d=$(cd /verif && realpath "$d")   # seeds may be given relative to /verif
  [ -f "$d/patch.diff" ] || { echo "no patch in $d" >&2; continue; }
  s=$(basename $d); prop=${s%%_*}; out=$OUT/$s.txt
  [ -f $out ] && continue
  cd $W && git reset -q --hard HEAD
  if ! git apply $d/patch.diff 2>/dev/null; then git apply --3way $d/patch.diff 2>/dev/null; git reset -q; if grep -rlq '^<<<<<<<' crates cmds 2>/dev/null; then echo "APPLY-FAILED" > $out; git reset -q --hard HEAD; continue; fi; fi
  git diff --quiet && { echo "APPLY-FAILED (no change)" > $out; continue; }
  props="$prop"; [ -n "${EXTRA_PROPS:-}" ] && props="$props $EXTRA_PROPS"
  : > $out
  for p in $props; do
    (cd /verif && timeout 3000 ./check $p --tier quick > $OUT/last.log 2>&1; echo "rc[$p]=$?" >> $out)
    grep -E "VIOLATION|failed obligation|UNDECIDED|KNOWN-FINDING|proved=" $OUT/last.log | cut -c1-260 >> $out
  done
  cd $W && git reset -q --hard HEAD
done
echo DONE > $OUT/done
