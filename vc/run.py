#!/usr/bin/env python3
"""Orchestrator: extract -> generate -> verify -> classify -> replay -> evidence.

usage: run.py check <PROPERTY> [--tier quick|thorough]
       run.py unit  <unit> [--tier ...]          (developer entry: one unit, verbose)
       run.py replay <violation.json>

Exit codes: 0 property held on everything explored (known findings included),
            1 at least one VIOLATION line was printed,
            2 undecided (lost anchor, unsupported construct, timeout, rlimit,
              vacuity canary failed, witness did not replay) -- never an alarm.
"""
import concurrent.futures as cf
import importlib.util
import json
import os
import re
import signal
import subprocess
import sys
import time

HERE = os.path.dirname(os.path.abspath(__file__))
ROOT = os.path.dirname(HERE)
sys.path.insert(0, HERE)
import extract  # noqa: E402
from extract import Src, LostAnchor, Unsupported, norm  # noqa: E402

UNITS_DIR = os.path.join(HERE, "units")
# the three output locations can be redirected (used by vc/seedmatrix.sh to run against a scratch worktree in parallel
# with normal use); registered commands never set these
BUILD = os.environ.get("VERIF_BUILD", os.path.join(ROOT, "build"))
EVID = os.environ.get("VERIF_EVID", os.path.join(ROOT, "evidence"))
VIOL = os.environ.get("VERIF_VIOL", os.path.join(ROOT, "violations"))
REPO = extract.REPO
VERUS_RLIMIT = "30"
PANIC_KINDS = ("overflow", "div0", "bounds", "unwrap", "pre", "panic", "safety")
SCAN_WORDS = ["assume(", "admit(", "external_body", "assume_specification", "kani::assume",
              "kani::stub", "unimplemented!", "external_fn_specification", "#[verifier::external",
              "assume_abort", "kani::any_where"]

os.environ.setdefault("CARGO_NET_OFFLINE", "true")
import threading  # noqa: E402
# one global budget of verifier processes (Verus runs and Kani harnesses), whatever the nesting of thread pools
PROC_SLOTS = threading.BoundedSemaphore(int(os.environ.get("VERIF_JOBS", "14")))


def log(*a):
    print(*a, flush=True)


# --------------------------------------------------------------------------
# generic helpers
# --------------------------------------------------------------------------

def run_cmd(cmd, cwd=None, timeout=None, env=None):
    """Run in its own process group; on timeout kill the whole group (cbmc is
    otherwise orphaned by `timeout cargo kani`)."""
    t0 = time.time()
    p = subprocess.Popen(cmd, cwd=cwd, stdout=subprocess.PIPE, stderr=subprocess.PIPE,
                         text=True, start_new_session=True, env=env)
    try:
        out, err = p.communicate(timeout=timeout)
        to = False
    except subprocess.TimeoutExpired:
        try:
            os.killpg(p.pid, signal.SIGKILL)
        except ProcessLookupError:
            pass
        out, err = p.communicate()
        to = True
    return {"rc": p.returncode, "out": out, "err": err, "timeout": to, "wall": time.time() - t0}


def load_unit(name):
    d = os.path.join(UNITS_DIR, name)
    u = json.load(open(os.path.join(d, "unit.json")))
    u["name"] = name
    u["dir"] = d
    return u


def all_units():
    return [load_unit(n) for n in sorted(os.listdir(UNITS_DIR))
            if os.path.exists(os.path.join(UNITS_DIR, n, "unit.json"))]


def tier_ok(item_tier, tier):
    return item_tier == "quick" or tier == "thorough"


def scan_trusted(text):
    found = []
    for ln, l in enumerate(text.split("\n"), 1):
        s = l.split("//")[0]
        for w in SCAN_WORDS:
            if w in s:
                found.append((w, ln, l.strip()[:120]))
    return found


# --------------------------------------------------------------------------
# Verus back end
# --------------------------------------------------------------------------

VERUS_MODES = {"spec", "proof", "exec"}


def _skip_angle(src, k):
    """k is the sig index of a '<' that opens a turbofish; return index of its matching '>'."""
    depth = 0
    while True:
        t = src.tok(k)
        if t in extract.OPEN:
            k = src.match[k]
        elif t == "<":
            depth += 1
        elif t == ">" and src.tok(k - 1) not in ("-", "="):
            depth -= 1
            if depth == 0:
                return k
        k += 1


def verus_fn_table(gen):
    """Parse the generated Verus file: every fn with its path, line span, mode,
    external_body flag and ensures clauses (byte spans)."""
    src = Src(gen, "gen.rs")
    sig = src.sig
    fns = []
    vlo, vhi = 0, len(gen)
    for i, (k, s, e) in enumerate(sig):
        if k == "ident" and gen[s:e] == "verus" and src.tok(i + 1) == "!" and src.tok(i + 2) == "{":
            vlo, vhi = sig[i + 2][1], sig[src.match[i + 2]][2]
            break
    # impl ranges for naming
    impls = []
    for i, (k, s, e) in enumerate(sig):
        if k == "ident" and gen[s:e] == "impl":
            j = i + 1
            while src.tok(j) != "{":
                if src.tok(j) in extract.OPEN:
                    j = src.match[j]
                j += 1
            header = gen[sig[i + 1][1]:sig[j][1]].strip()
            tname = header.split(" for ")[-1].strip()
            tname = re.sub(r"<.*", "", tname)
            impls.append((sig[j][1], sig[src.match[j]][2], tname))
    for i, (k, s, e) in enumerate(sig):
        if not (k == "ident" and gen[s:e] == "fn" and i + 1 < len(sig) and sig[i + 1][0] == "ident"):
            continue
        name = src.tok(i + 1)
        if not (vlo <= s < vhi):
            continue
        # qualifiers
        q = i - 1
        quals = []
        while q >= 0 and sig[q][0] == "ident" and src.tok(q) in ("pub", "open", "closed", "spec", "proof", "exec",
                                                                  "uninterp", "const", "broadcast", "axiom"):
            quals.append(src.tok(q)); q -= 1
        # attributes
        ext = False
        qq = q
        while qq >= 1 and src.tok(qq) == "]" and src.tok(src.match[qq] - 1) == "#":
            a = gen[sig[src.match[qq]][1]:sig[qq][2]]
            if "external_body" in a:
                ext = True
            qq = src.match[qq] - 2
        mode = "spec" if "spec" in quals else ("proof" if "proof" in quals else "exec")
        # walk to body '{' or ';'
        j = i + 2
        ens_start = None
        while j < len(sig) and src.tok(j) not in ("{", ";"):
            t = src.tok(j)
            if t in extract.OPEN:
                j = src.match[j]
            elif t in ("forall", "exists", "choose") and src.tok(j + 1) == "|":
                j += 2
                while src.tok(j) != "|":
                    j += 1
            elif t == "ensures" and ens_start is None:
                ens_start = j + 1
            elif t in ("decreases", "opens_invariants", "no_unwind") and ens_start is not None and False:
                pass
            j += 1
        if j >= len(sig):
            continue
        clauses = []
        if ens_start is not None:
            # split [ens_start, j) on top-level commas
            a = ens_start
            kx = ens_start
            while kx < j:
                t = src.tok(kx)
                if t in extract.OPEN:
                    kx = src.match[kx]
                elif t in ("forall", "exists", "choose") and src.tok(kx + 1) == "|":
                    kx += 2
                    while src.tok(kx) != "|":
                        kx += 1
                elif t == "<" and src.tok(kx - 1) == ":" and src.tok(kx - 2) == ":":
                    kx = _skip_angle(src, kx)
                elif t == ",":
                    if kx > a:
                        clauses.append((sig[a][1], sig[kx - 1][2]))
                    a = kx + 1
                elif t in ("decreases",):
                    break
                kx += 1
            if kx > a and a < j:
                clauses.append((sig[a][1], sig[min(kx, j) - 1][2]))
        end = sig[src.match[j]][2] if src.tok(j) == "{" else sig[j][2]
        owner = ""
        for (is_, ie, tn) in impls:
            if is_ <= s < ie:
                owner = tn + "::"
        fns.append({"path": owner + name, "name": name, "start": s, "end": end, "mode": mode, "qstart": sig[q + 1][1],
                    "name_span": (sig[i + 1][1], sig[i + 1][2]),
                    "external_body": ext, "clauses": clauses, "uninterp": "uninterp" in quals,
                    "line": gen.count("\n", 0, s) + 1})
    return fns


def add_false_postconditions(gen, fns, extracted_fn_starts):
    """Vacuity canary: every extracted exec fn gets the extra postcondition `false`."""
    ins = []
    for f in fns:
        if f["start"] in extracted_fn_starts and f["clauses"]:
            txt = gen[f["qstart"]:f["end"]]
            ns, ne = f["name_span"][0] - f["qstart"], f["name_span"][1] - f["qstart"]
            c0 = f["clauses"][0][0] - f["qstart"]
            dup = txt[:ns] + f["name"] + "__canary" + txt[ne:c0] + "false, " + txt[c0:]
            dup = dup.replace("//@begin ", "//@canarybegin ").replace("//@end ", "//@canaryend ")
            ins.append((f["end"], "\n" + dup + "\n"))
    ins.sort()
    out, pos = [], 0
    for off, t in ins:
        out.append(gen[pos:off]); out.append(t); pos = off
    out.append(gen[pos:])
    return "".join(out)


def run_verus(path, cwd):
    cmd = ["verus", os.path.basename(path), "--output-json", "--time", "--multiple-errors", "30",
           "--rlimit", VERUS_RLIMIT, "--error-format=json"]
    with PROC_SLOTS:
        r = run_cmd(cmd, cwd=cwd, timeout=600)
    res = {"cmd": " ".join(cmd), "wall": r["wall"], "timeout": r["timeout"], "raw_err": r["err"]}
    try:
        js = json.loads(r["out"])
    except Exception:
        js = None
    res["json"] = js
    diags = []
    for l in r["err"].split("\n"):
        l = l.strip()
        if l.startswith("{"):
            try:
                d = json.loads(l)
            except Exception:
                continue
            if d.get("$message_type") == "diagnostic":
                diags.append(d)
    res["diags"] = diags
    return res


def classify_verus_msg(msg):
    m = msg.lower()
    if "postcondition not satisfied" in m:
        return "post"
    if "precondition not satisfied" in m:
        return "pre"
    if "underflow/overflow" in m:
        return "overflow"
    if "division by zero" in m:
        return "div0"
    if "assertion failed" in m:
        return "assert"
    if "invariant not satisfied" in m:
        return "inv"
    if "decreases not satisfied" in m or "could not prove termination" in m:
        return "decreases"
    if "index" in m and "bounds" in m:
        return "bounds"
    if "resource limit" in m or "rlimit" in m:
        return "rlimit"
    if "unwrap" in m or "expect" in m:
        return "unwrap"
    return "other"


def unit_verus(u, tier):
    name = u["name"]
    bdir = os.path.join(BUILD, name)
    os.makedirs(bdir, exist_ok=True)
    tpl = open(os.path.join(u["dir"], u.get("template", "template.rs"))).read()
    extract._cache.clear()
    gen, regions = extract.process(tpl, name)
    extract.verify_identity(gen, regions)
    gpath = os.path.join(bdir, "gen.rs")
    open(gpath, "w").write(gen)
    fns = verus_fn_table(gen)
    # which fns are extracted (have a //@begin region right at their body)
    ext_starts = set()
    for f in fns:
        seg = gen[f["start"]:f["end"]]
        if "//@begin " in seg:
            f["extracted"] = True
            ext_starts.add(f["start"])
        else:
            f["extracted"] = False
    declared = u.get("trusted_scan_allow", [])
    trusted_found = scan_trusted(gen)
    res = run_verus(gpath, bdir)
    js = res["json"]
    out = {"unit": name, "backend": "verus", "regions": [{k: r[k] for k in ("id", "file", "selector", "sha256", "lines", "r2_dropped")} for r in regions],
           "cmd": res["cmd"], "wall_s": round(res["wall"], 2), "obligations": [], "status": "ok", "notes": [],
           "trusted_found": [f"{w} @gen.rs:{ln}: {t}" for (w, ln, t) in trusted_found]}
    if res["timeout"] or js is None:
        out["status"] = "undecided"
        out["notes"].append("verus timeout" if res["timeout"] else "verus produced no JSON: " + res["raw_err"][-2000:])
        return out
    vr = js["verification-results"]
    # compile-level errors (not verification failures) => unsupported construct
    hard = [d for d in res["diags"] if d["level"] == "error" and classify_verus_msg(d["message"]) == "other"
            and not d["message"].startswith("aborting due to")]
    if vr.get("encountered-vir-error") or (hard and not vr.get("verified") and not vr.get("errors")) or \
            any("rustc" in (d.get("code") or {}).get("code", "") or (d.get("code") or {}).get("code", "").startswith("E") for d in hard):
        out["status"] = "undecided"
        out["notes"].append("unsupported construct / compile error in generated Verus file: " +
                            "; ".join(d["message"] for d in hard)[:1500])
        return out
    # per-function smt results
    smt = {}
    try:
        for m in js["times-ms"]["smt"]["smt-run-module-times"]:
            for fb in m.get("function-breakdown", []):
                key = fb["function"].split("::", 1)[1] if "::" in fb["function"] else fb["function"]
                smt.setdefault(key, []).append(fb)
    except Exception:
        pass
    out["smt_ms"] = js["times-ms"]["smt"]["total"] if "times-ms" in js else None
    # map diagnostics to functions and clauses
    fails = {}  # path -> list of (kind, detail)
    for d in res["diags"]:
        if d["level"] != "error" or d["message"].startswith("aborting"):
            continue
        kind = classify_verus_msg(d["message"])
        prim = [s for s in d["spans"] if s.get("is_primary")] or d["spans"]
        if not prim:
            continue
        # function containing the *body-side* span
        owner = None
        clause_no = None
        for s in d["spans"]:
            for f in fns:
                if f["start"] <= s["byte_start"] < f["end"]:
                    for ci, (cs, ce) in enumerate(f["clauses"]):
                        if cs <= s["byte_start"] < ce and kind == "post":
                            clause_no = ci + 1
                            owner = f
        if owner is None:
            # choose fn containing the primary span that is NOT a requires-clause of a callee
            cands = []
            for s in d["spans"]:
                for f in fns:
                    if f["start"] <= s["byte_start"] < f["end"]:
                        cands.append((f, s))
            # prefer extracted/exec function with body-side span (last one listed in source order of spans)
            body_side = [c for c in cands if c[0]["mode"] != "spec" and c[1].get("is_primary")]
            pick = (body_side or cands or [(None, None)])[0]
            owner = pick[0]
        if owner is None:
            continue
        txt = ""
        for s in prim:
            if s.get("text"):
                t0 = s["text"][0]
                txt = t0["text"][t0["highlight_start"] - 1:t0["highlight_end"] - 1]
        callee = ""
        if kind == "pre":
            callee = "@" + re.sub(r"\s+", " ", txt)[:60]
        fails.setdefault(owner["path"], []).append({"kind": kind, "clause": clause_no, "text": re.sub(r"\s+", " ", txt)[:160],
                                                    "msg": d["message"], "rendered": d.get("rendered", "")[:1500], "callee": callee})
    for f in fns:
        if f["mode"] == "spec" or f["external_body"]:
            continue
        key_ok = None
        for k, v in smt.items():
            if k == f["path"] or k.endswith("::" + f["path"]) or k.replace("impl&%", "").endswith(f["path"]):
                key_ok = all(x.get("success") for x in v)
        ff = fails.get(f["path"], [])
        base = f"{name}/{f['path']}"
        if f["mode"] == "proof":
            out["obligations"].append({"id": f"{base}/lemma", "kind": "lemma", "fn": f["path"], "extracted": False,
                                       "status": "failed" if ff or key_ok is False else "discharged",
                                       "detail": ff})
            continue
        for ci, (cs, ce) in enumerate(f["clauses"], 1):
            cf_ = [x for x in ff if x["kind"] == "post" and x["clause"] == ci]
            out["obligations"].append({"id": f"{base}/post#{ci}", "kind": "post", "fn": f["path"], "extracted": f["extracted"],
                                       "clause": re.sub(r"\s+", " ", gen[cs:ce])[:200],
                                       "status": "failed" if cf_ else "discharged", "detail": cf_})
        sf = [x for x in ff if not (x["kind"] == "post" and x["clause"])]
        out["obligations"].append({"id": f"{base}/safety", "kind": "safety", "fn": f["path"], "extracted": f["extracted"],
                                   "clause": "no overflow / underflow / division by zero / callee precondition / unwrap / loop invariant / termination in body",
                                   "status": "failed" if sf else "discharged", "detail": sf})
        if key_ok is False and not ff:
            out["obligations"][-1]["status"] = "undecided"
            out["notes"].append(f"{f['path']}: verus reports failure without a mapped diagnostic")
    if any(x["kind"] == "rlimit" for v in fails.values() for x in v):
        out["status"] = "undecided"
        out["notes"].append("resource limit exceeded")
    # consistency: verus error count vs mapped
    n_failed = sum(1 for o in out["obligations"] if o["status"] == "failed")
    if vr["errors"] > 0 and n_failed == 0 and out["status"] == "ok":
        out["status"] = "undecided"
        out["notes"].append("verus reported errors that could not be mapped to an obligation: " + res["raw_err"][-1500:])
    if not vr["success"] and vr["errors"] == 0 and out["status"] == "ok":
        out["status"] = "undecided"
        out["notes"].append("verus did not succeed and reported no verification error: " + res["raw_err"][-1500:])
    # vacuity canary
    cgen = add_false_postconditions(gen, fns, ext_starts)
    cpath = os.path.join(bdir, "canary.rs")
    open(cpath, "w").write(cgen)
    cres = run_verus(cpath, bdir)
    canary = {"functions": 0, "rejected": 0, "vacuous": []}
    if cres["json"] is None or cres["timeout"]:
        out["status"] = "undecided"
        out["notes"].append("canary run failed")
    else:
        cfns = verus_fn_table(cgen)
        bad_lines = set()
        for d in cres["diags"]:
            if d["level"] == "error":
                for s in d["spans"]:
                    bad_lines.add(s["byte_start"])
        for f in cfns:
            if not f["clauses"] or f["mode"] != "exec" or f["external_body"]:
                continue
            if not f["name"].endswith("__canary"):
                continue
            canary["functions"] += 1
            if any(f["start"] <= b < f["end"] for b in bad_lines):
                canary["rejected"] += 1
            else:
                canary["vacuous"].append(f["path"])
        if canary["vacuous"]:
            out["status"] = "undecided"
            out["notes"].append("VACUITY: `ensures false` verified for " + ", ".join(canary["vacuous"]))
    out["canary"] = canary
    if not out["obligations"]:
        out["status"] = "undecided"
        out["notes"].append("zero obligations generated")
    out["wall_s"] = round(res["wall"] + cres["wall"], 2)
    return out


# --------------------------------------------------------------------------
# Kani back end
# --------------------------------------------------------------------------

def parse_kani(outtxt):
    r = {"verdict": None, "failed_checks": [], "checks_total": None, "checks_failed": None,
         "covers_total": 0, "covers_sat": 0, "playback": None, "time": None, "stubs": []}
    m = re.search(r"VERIFICATION:- (SUCCESSFUL|FAILED)", outtxt)
    if m:
        r["verdict"] = m.group(1)
    m = re.search(r"\*\* (\d+) of (\d+) failed", outtxt)
    if m:
        r["checks_failed"], r["checks_total"] = int(m.group(1)), int(m.group(2))
    m = re.search(r"\*\* (\d+) of (\d+) cover properties satisfied", outtxt)
    if m:
        r["covers_sat"], r["covers_total"] = int(m.group(1)), int(m.group(2))
    for m in re.finditer(r"Failed Checks: (.*)\n File: \"([^\"]*)\", line (\d+), in (\S+)", outtxt):
        r["failed_checks"].append({"desc": m.group(1).strip(), "file": m.group(2), "line": int(m.group(3)), "fn": m.group(4)})
    for m in re.finditer(r"Failed Checks: (.*)\n(?! File:)", outtxt):
        r["failed_checks"].append({"desc": m.group(1).strip(), "file": "", "line": 0, "fn": ""})
    m = re.search(r"Verification Time: ([0-9.]+)s", outtxt)
    if m:
        r["time"] = float(m.group(1))
    m = re.search(r"Concrete playback unit test for `[^`]*`:\n```\n(.*?)```", outtxt, re.S)
    if m:
        r["playback"] = m.group(1)
    r["stubs"] = re.findall(r"- Stub: (.*)", outtxt)
    return r


def kani_check_kind(desc):
    d = desc.lower()
    if "unwinding assertion" in d:
        return "unwind"
    if "obligation:" in d:
        return "assert"
    if "overflow" in d:
        return "overflow"
    if "division by zero" in d or "remainder" in d and "zero" in d or "divide by zero" in d:
        return "div0"
    if "index out of bounds" in d or "out of range" in d or "slice index" in d:
        return "bounds"
    if "unwrap" in d or "expect" in d or "unreachable" in d:
        return "unwrap"
    if "obligation:" in d:
        return "assert"
    if d.startswith("assertion failed") or d.startswith("[post") or d.startswith("post"):
        return "assert"
    if "dereference failure" in d or "pointer" in d or "memory" in d or "free" in d or "deallocat" in d:
        return "memory"
    if "unsupported" in d or "not supported" in d or "unimplemented" in d and "kani" in d:
        return "unsupported"
    return "panic"


def decode_playback(pb):
    """List of byte vectors from Kani's printed concrete playback test."""
    if not pb:
        return None
    vals = []
    for m in re.finditer(r"vec!\[([0-9, ]*)\]", pb.split("concrete_vals", 1)[-1]):
        body = m.group(1).strip()
        if body == "" and not vals and "Vec<Vec<u8>>" in pb[:m.start() + 50]:
            continue
        vals.append([int(x) for x in body.split(",") if x.strip() != ""])
    return vals


def run_kani_harness(gpath, bdir, h, flags):
    """First run without concrete playback (the playback instrumentation costs ~5x solver time); only a harness
    that FAILED is run a second time with playback enabled to obtain the witness."""
    td = os.path.join(bdir, "td_" + h["name"])
    base = ["kani", os.path.basename(gpath), "--harness", h.get("module", "harness") + "::" + h["name"], "--exact", "--target-dir", td,
            "--output-format", "regular"] + flags
    if h.get("unwind"):
        base += ["--default-unwind", str(h["unwind"])]
    if h.get("solver"):
        base += ["--solver", h["solver"]]
    for a in h.get("args", []):
        base.append(a)
    env = dict(os.environ)
    env["RUSTFLAGS"] = "--edition 2021"
    with PROC_SLOTS:
        r = run_cmd(base, cwd=bdir, timeout=h.get("timeout", 300), env=env)
    p = parse_kani(r["out"])
    p.update({"cmd": " ".join(base), "wall": r["wall"], "timeout": r["timeout"], "rc": r["rc"],
              "tail": (r["out"][-3000:] + "\n" + r["err"][-3000:])})
    if p["verdict"] == "FAILED" and not r["timeout"]:
        cmd2 = base + ["-Z", "concrete-playback", "--concrete-playback=print"]
        with PROC_SLOTS:
            r2 = run_cmd(cmd2, cwd=bdir, timeout=max(600, 4 * h.get("timeout", 300)), env=env)
        p2 = parse_kani(r2["out"])
        if p2["playback"]:
            p["playback"] = p2["playback"]
        p["wall"] += r2["wall"]
        p["witness_cmd"] = " ".join(cmd2)
    subprocess.call(["rm", "-rf", td])
    return p


def kani_native_replay(gen, bdir, hname, playback):
    """Generic replay: run Kani's concrete-playback test natively against the
    extracted (verbatim) function text."""
    m = re.search(r"fn (kani_concrete_playback_\w+)\(\)", playback)
    if not m:
        return {"ran": False, "why": "no playback test name"}
    tname = m.group(1)
    rdir = os.path.join(bdir, f"replay_{hname}")
    subprocess.call(["rm", "-rf", rdir])
    os.makedirs(rdir, exist_ok=True)
    rp = os.path.join(rdir, "replay.rs")
    # convention: `mod harness { ... }` is the last item of a Kani template; the playback test goes inside it
    cut = gen.rstrip().rfind("}")
    # units may shadow Vec / vec! with fixed-capacity stand-ins: the playback test must use std's
    pb = playback.replace("Vec<Vec<u8>>", "::std::vec::Vec<::std::vec::Vec<u8>>").replace("vec![", "::std::vec![")
    open(rp, "w").write(gen[:cut] + "\n" + pb + "\n}\n")
    cmd = ["kani", "playback", "-Z", "concrete-playback", "replay.rs", "--", tname]
    env = dict(os.environ)
    env["RUSTFLAGS"] = "--edition 2021"
    r = run_cmd(cmd, cwd=rdir, timeout=300, env=env)
    for f in os.listdir(rdir):
        if f != "replay.rs":
            subprocess.call(["rm", "-rf", os.path.join(rdir, f)])
    txt = r["out"] + r["err"]
    failed = ("panicked at" in txt) or ("test result: FAILED" in txt)
    passed = "test result: ok" in txt
    return {"ran": failed or passed, "confirmed": failed, "cmd": " ".join(cmd), "transcript": txt[-2500:], "file": rp}


def flatten_use(tree, prefix=""):
    """'std::{a::{B, C as D}, e::F}' -> ['std::a::B', 'std::a::C as D', 'std::e::F'] (brace-aware split)."""
    tree = tree.strip()
    if "{" not in tree:
        return [prefix + tree] if tree else []
    head, rest = tree.split("{", 1)
    depth, j = 1, 0
    while j < len(rest) and depth:
        depth += rest[j] == "{"; depth -= rest[j] == "}"; j += 1
    inner = rest[:j - 1]
    parts, d, cur = [], 0, ""
    for ch in inner:
        if ch == "," and d == 0:
            parts.append(cur); cur = ""
        else:
            d += ch == "{"; d -= ch == "}"; cur += ch
    parts.append(cur)
    out = []
    for p_ in parts:
        out += flatten_use(p_, prefix + head)
    return out


def std_imports_of(relfile):
    """All `use std|core|alloc::...;` leaf paths of a repository source file (top level only)."""
    try:
        text = open(os.path.join(REPO, relfile), encoding="utf-8").read()
    except OSError:
        return []
    leaves = []
    for m in re.finditer(r"(?ms)^use\s+((?:std|core|alloc)::.*?);", text):
        leaves += flatten_use(re.sub(r"\s+", " ", m.group(1)))
    return leaves


def kani_missing_fns(gpath, bdir):
    """Compile-only probe (no harness matches): names of free functions the generated file calls but does not define."""
    env = dict(os.environ)
    env["RUSTFLAGS"] = "--edition 2021"
    td = os.path.join(bdir, "td_probe")
    with PROC_SLOTS:
        r = run_cmd(["kani", os.path.basename(gpath), "--harness", "verif_no_such_harness", "--target-dir", td], cwd=bdir, timeout=300, env=env)
    subprocess.call(["rm", "-rf", td])
    txt = r["out"] + r["err"]
    fns = sorted(set(re.findall(r"error\[E0425\]: cannot find function `(\w+)` in this scope", txt)))
    names = sorted(set(re.findall(r"use of undeclared type `(\w+)`", txt) + re.findall(r"cannot find (?:type|trait|struct, variant or union type|macro) `(\w+)` in this scope", txt)
                       + re.findall(r"use of undeclared crate or module `(\w+)`", txt) + re.findall(r"use of unresolved module or unlinked crate `(\w+)`", txt)))
    methods = sorted(set(re.findall(r"no method named `(\w+)` found for (?:struct|enum|reference) `&?(\w+)`", txt)))
    return fns, names, methods


def unit_kani(u, tier):
    name = u["name"]
    bdir = os.path.join(BUILD, name)
    os.makedirs(bdir, exist_ok=True)
    tpl = open(os.path.join(u["dir"], u.get("template", "harness.rs"))).read()
    extract._cache.clear()
    gen, regions = extract.process(tpl, name)
    extract.verify_identity(gen, regions)
    gpath = os.path.join(bdir, "gen.rs")
    open(gpath, "w").write(gen)
    # closure of the extraction: if the extracted text calls a free function that the template does not extract
    # (typical after a refactoring that factors a helper out), fetch `fn <name>` from the same source files and retry
    auto_added = []
    for _round in range(3):
        missing, missing_names, missing_methods = kani_missing_fns(gpath, bdir)
        if not missing and not missing_names and not missing_methods:
            break
        extra = []
        uses = []
        files = []
        for r in regions:
            if r["file"] not in files:
                files.append(r["file"])
        for fnname in missing:
            for f in files:
                try:
                    extract.locate(extract.load(f), f"fn {fnname}")
                except (LostAnchor, Unsupported):
                    continue
                extra.append(f"//@item {f} :: fn {fnname} ;; id=auto_{fnname}")
                auto_added.append(f"{f} :: fn {fnname}")
                break
        # a method of a stand-in type that exists on the real type in one of the source files (a helper factored out into a method)
        for (mname, tname) in missing_methods:
            for f in files:
                try:
                    extract.locate(extract.load(f), f"impl {tname} #* > fn {mname}")
                except (LostAnchor, Unsupported):
                    continue
                extra.append(f"impl {tname} {{\n//@item {f} :: impl {tname} #* > fn {mname} ;; id=auto_{tname}_{mname}\n}}")
                auto_added.append(f"{f} :: impl {tname} > fn {mname}")
                break
        # a std item the source file imports but the template does not (e.g. a new `use std::mem::ManuallyDrop`)
        for nm in missing_names:
            for f in files:
                hit = [l for l in std_imports_of(f) if re.search(r"(::|\bas )%s$" % re.escape(nm), l) or l.endswith("::" + nm)]
                if hit:
                    uses.append(f"use {hit[0]}; // auto-import: std item imported by {f}")
                    auto_added.append(f"use {hit[0]} (from {f})")
                    break
        if not extra and not uses:
            break
        marker = "#[cfg(kani)]\nmod harness {"
        if marker not in tpl:
            break
        tpl = tpl.replace(marker, "// auto-extracted helpers / std imports (needed by extracted text, not named in the template)\n" + "\n".join(uses + extra) + "\n" + marker, 1)
        extract._cache.clear()
        gen, regions = extract.process(tpl, name)
        extract.verify_identity(gen, regions)
        open(gpath, "w").write(gen)
    trusted_found = scan_trusted(gen)
    out = {"unit": name, "backend": "kani", "auto_extracted": auto_added, "regions": [{k: r[k] for k in ("id", "file", "selector", "sha256", "lines", "r2_dropped")} for r in regions],
           "obligations": [], "status": "ok", "notes": [], "cmd": "kani gen.rs --harness <h> --exact " + " ".join(u.get("kani", {}).get("flags", [])) + "  (failed harnesses re-run with -Z concrete-playback --concrete-playback=print)",
           "trusted_found": [f"{w} @gen.rs:{ln}: {t}" for (w, ln, t) in trusted_found]}
    flags = u.get("kani", {}).get("flags", [])
    hs = [h for h in u["kani"]["harnesses"] if tier_ok(h.get("tier", "quick"), tier)]
    # every declared harness must exist in the generated text
    for h in hs:
        if not re.search(r"fn\s+%s\s*\(" % re.escape(h["name"]), gen):
            raise Unsupported(f"{name}: harness {h['name']} missing from template")
    t0 = time.time()
    workers = int(os.environ.get("VERIF_KANI_JOBS", "16"))
    with cf.ThreadPoolExecutor(max_workers=workers) as ex:
        futs = {ex.submit(run_kani_harness, gpath, bdir, h, flags): h for h in hs}
        results = {futs[f]["name"]: f.result() for f in cf.as_completed(futs)}
    for h in hs:
        p = results[h["name"]]
        ob = {"id": f"{name}/{h['name']}", "kind": "harness", "fn": h.get("fn", h["name"]), "extracted": True,
              "clause": h.get("claim", ""), "level": h.get("level", "B"), "bound": h.get("bound"),
              "checks_total": p["checks_total"], "covers": [p["covers_sat"], p["covers_total"]],
              "solver_s": p["time"], "wall_s": round(p["wall"], 1), "cmd": p["cmd"], "stubs": p["stubs"], "detail": [],
              "props": h.get("props"), "modes": h.get("modes")}
        if p["timeout"]:
            ob["status"] = "undecided"; ob["detail"].append({"kind": "timeout", "msg": f"timeout after {h.get('timeout', 300)}s"})
        elif p["verdict"] is None:
            ob["status"] = "undecided"; ob["detail"].append({"kind": "toolerror", "msg": p["tail"][-1800:]})
        elif p["verdict"] == "SUCCESSFUL":
            ob["status"] = "discharged"
            need = h.get("covers", 1)
            if p["covers_total"] < need or p["covers_sat"] < p["covers_total"]:
                ob["status"] = "undecided"
                ob["detail"].append({"kind": "vacuity", "msg": f"cover properties satisfied {p['covers_sat']}/{p['covers_total']} (need >= {need} and all)"})
            if not p["checks_total"]:
                ob["status"] = "undecided"
                ob["detail"].append({"kind": "vacuity", "msg": "zero checks"})
        else:
            kinds = [kani_check_kind(c["desc"]) for c in p["failed_checks"]]
            real = [c for c, k in zip(p["failed_checks"], kinds) if k not in ("unwind", "unsupported")]
            if not real:
                ob["status"] = "undecided"
                ob["detail"].append({"kind": "unwind", "msg": "only unwinding/unsupported checks failed: " +
                                     "; ".join(c["desc"] for c in p["failed_checks"])[:500] + p["tail"][-600:]})
            else:
                ob["status"] = "failed"
                for c in real:
                    ob["detail"].append({"kind": kani_check_kind(c["desc"]), "msg": c["desc"], "at": f"{c['file']}:{c['line']} in {c['fn']}"})
                ob["witness_bytes"] = decode_playback(p["playback"])
                ob["playback"] = p["playback"]
                if p["playback"]:
                    ob["native_replay"] = kani_native_replay(gen, bdir, h["name"], p["playback"])
        out["obligations"].append(ob)
    out["wall_s"] = round(time.time() - t0, 1)
    if any(o["status"] == "undecided" for o in out["obligations"]):
        out["status"] = "undecided"
        for o in out["obligations"]:
            if o["status"] == "undecided":
                out["notes"].append(f"{o['id']}: " + "; ".join(d["msg"][:600] for d in o["detail"]))
    if not out["obligations"]:
        out["status"] = "undecided"; out["notes"].append("zero harnesses for this tier")
    return out


def run_unit(u, tier):
    try:
        if u["backend"] == "verus":
            r = unit_verus(u, tier)
        else:
            r = unit_kani(u, tier)
    except LostAnchor as e:
        r = {"unit": u["name"], "backend": u["backend"], "status": "undecided", "notes": [f"lost-anchor: {e}"], "obligations": [], "regions": [], "wall_s": 0, "cmd": "", "trusted_found": []}
    except Unsupported as e:
        r = {"unit": u["name"], "backend": u["backend"], "status": "undecided", "notes": [f"unsupported-construct: {e}"], "obligations": [], "regions": [], "wall_s": 0, "cmd": "", "trusted_found": []}
    r["trusted"] = u.get("trusted", [])
    r["desc"] = u.get("desc", "")
    return r


# --------------------------------------------------------------------------
# property-level check
# --------------------------------------------------------------------------

def load_findings():
    p = os.path.join(ROOT, "known_findings.json")
    if not os.path.exists(p):
        return []
    return json.load(open(p)).get("findings", [])


def finding_matches(f, prop, ob):
    if f.get("status") != "open" or f.get("property") != prop:
        return False
    if f.get("obligation") != ob["id"]:
        return False
    pat = f.get("failed_check_regex")
    if pat:
        msgs = [d.get("msg", "") + " " + d.get("text", "") for d in ob.get("detail", [])]
        if not msgs or not all(re.search(pat, m) for m in msgs):
            return False
    return True


def serves(u, prop):
    s = u.get("serves", {})
    return s.get(prop)


def obligation_relevant(ob, mode):
    """mode 'all' => every failure counts; 'panic' => only panic-kind failures."""
    if mode == "all":
        return True
    if ob["kind"] == "safety":
        return True
    if ob["kind"] == "harness":
        ks = [d["kind"] for d in ob.get("detail", [])]
        return any(k in PANIC_KINDS or k in ("memory",) for k in ks) if ob["status"] == "failed" else True
    if ob["kind"] == "lemma":
        return True
    return False


def unit_replay(u, ob, prop):
    """Unit-specific replay against the real binary, if the unit provides one."""
    rp = os.path.join(u["dir"], "replay.py")
    if not os.path.exists(rp):
        return None
    spec = importlib.util.spec_from_file_location("replay_" + u["name"], rp)
    mod = importlib.util.module_from_spec(spec)
    spec.loader.exec_module(mod)
    try:
        return mod.replay(ob, prop)
    except Exception as e:  # replay machinery failure is never an alarm by itself
        return {"ran": False, "why": f"replay driver error: {e!r}"}


def check(prop, tier):
    t0 = time.time()
    units = [u for u in all_units() if serves(u, prop) and tier_ok(u.get("tier", "quick"), tier)]
    if not units:
        log(f"no units serve {prop}")
        return 2
    os.makedirs(EVID, exist_ok=True)
    vdir = os.path.join(VIOL, prop)
    os.makedirs(vdir, exist_ok=True)
    jobs = int(os.environ.get("VERIF_UNIT_JOBS", "16"))
    with cf.ThreadPoolExecutor(max_workers=jobs) as ex:
        results = list(ex.map(lambda u: run_unit(u, tier), units))
    findings = load_findings()
    violations, known, undecided = [], [], []
    proved, bounded, failed_obs = [], [], []
    for u, r in zip(units, results):
        mode = serves(u, prop)
        log(f"[{prop}] unit {r['unit']} ({r['backend']}): {r['status']}  obligations={len(r['obligations'])} wall={r.get('wall_s')}s")
        for n in r["notes"]:
            log(f"    note: {n[:1500]}")
        if r["status"] == "undecided" and not any(o["status"] == "failed" for o in r["obligations"]):
            undecided.append((r["unit"], "; ".join(r["notes"])[:800]))
        for ob in r["obligations"]:
            if mode != "all" and ob["kind"] == "post":
                continue  # functional clauses are reported under the functional property
            if ob.get("props") and prop not in ob["props"]:
                continue  # harness restricted to some of the unit's properties
            if ob["status"] == "discharged":
                (proved if ob.get("level", "P") == "P" else bounded).append(ob)
            elif ob["status"] == "undecided":
                if r["status"] != "undecided":
                    undecided.append((ob["id"], "undecided"))
            elif ob["status"] == "failed":
                if not obligation_relevant(ob, (ob.get("modes") or {}).get(prop, mode)):
                    continue
                failed_obs.append(ob)
                mf = [f for f in findings if finding_matches(f, prop, ob)]
                if mf:
                    known.append((ob, mf[0]))
                    continue
                # replay
                rep = {"property": prop, "obligation": ob["id"], "unit": r["unit"], "backend": r["backend"],
                       "function": ob["fn"], "clause": ob.get("clause"), "verifier_cmd": ob.get("cmd") or r["cmd"],
                       "verifier_output": ob["detail"], "regions": r["regions"],
                       "witness_bytes": ob.get("witness_bytes"), "playback_test": ob.get("playback"),
                       "native_replay": ob.get("native_replay"), "tier": tier}
                ur = unit_replay(u, ob, prop)
                rep["real_code_replay"] = ur
                idx = len(violations) + 1
                path = os.path.join(vdir, f"{idx}.json")
                json.dump(rep, open(path, "w"), indent=1)
                confirmed = (ur or {}).get("confirmed") or (ob.get("native_replay") or {}).get("confirmed")
                # a harness without symbolic inputs has an (empty) playback test that is still a replayable witness
                has_witness = bool(ob.get("witness_bytes")) or bool(ob.get("playback")) or bool((ur or {}).get("input"))
                if has_witness and confirmed:
                    violations.append((ob, path, ""))
                elif has_witness and (ob.get("native_replay") or {}).get("ran") and not confirmed and not (ur or {}).get("confirmed"):
                    # a witness that does not reproduce natively: the stand-in is too liberal -> undecided
                    undecided.append((ob["id"], "verifier witness did not replay on the extracted code: " + path))
                else:
                    violations.append((ob, path, " no-failing-input-found"))
    for ob, f in known:
        log(f"KNOWN-FINDING: property={prop} {f.get('what', ob['id'])} [obligation {ob['id']}]")
    for ob, path, suffix in violations:
        log(f"  failed obligation {ob['id']}: " + "; ".join((d.get('msg', '') + ' ' + d.get('text', '')).strip() for d in ob['detail'])[:400])
        log(f"VIOLATION property={prop} replay={path}{suffix}")
    for w, why in undecided:
        log(f"UNDECIDED {w}: {why}")
    wall = time.time() - t0
    # evidence
    # obligations that failed but are listed as open known findings are reported under their own key: they are neither
    # discharged nor part of the proof claim (the claim excludes them explicitly, see known_findings.json)
    known_ids = {id(o) for o, _ in known}
    n_ob = len(proved) + len([o for o in failed_obs if o.get("level", "P") == "P" and id(o) not in known_ids])
    trusted = []
    for r in results:
        for t in r.get("trusted", []):
            if t not in trusted:
                trusted.append(t)
    fn_set = sorted({f"{r['unit']}:{reg['file']} :: {reg['selector']} (sha256/16 {reg['sha256']}, {reg['lines']} lines)"
                     for r in results for reg in r["regions"]})
    manifest_note = json.load(open(os.path.join(ROOT, "MANIFEST.json"))) if os.path.exists(os.path.join(ROOT, "MANIFEST.json")) else {}
    claim = next((c for c in manifest_note.get("checks", []) if c["property_id"] == prop), {})
    try:
        category = json.load(open(os.path.join(HERE, "claims.json"))).get(prop, {}).get("category", "proof")
    except Exception:
        category = "proof"
    if category == "proof" and not proved:
        category = "other"
    ev = {
        "property_id": prop, "tier": tier, "seed": int(os.environ.get("VERIF_SEED", "0") or 0),
        "level": category,
        "coverage": {
            "obligations": n_ob,
            "discharged": len(proved),
            "checker_cmd": "; ".join(sorted({r["cmd"] for r in results if r["cmd"]})),
            "trusted_base": trusted,
            "explanation": claim.get("level_note", "") or "see DESIGN.md",
            "bounded_obligations": {"count": len(bounded) + len([o for o in failed_obs if o.get("level") == "B"]),
                                    "discharged": len(bounded),
                                    "items": [{"id": o["id"], "bound": o.get("bound"), "claim": o.get("clause")} for o in bounded]},
            "units": [{"unit": r["unit"], "backend": r["backend"], "status": r["status"], "wall_s": r.get("wall_s"),
                       "smt_ms": r.get("smt_ms"), "canary": r.get("canary"), "desc": r.get("desc"),
                       "obligations": len(r["obligations"]),
                       "assumption_scan": r.get("trusted_found", [])} for r in results],
            "functions_under_contract": fn_set,
            "samples": [{"id": o["id"], "status": o["status"], "level": o.get("level", "P"), "clause": o.get("clause"),
                         "solver_s": o.get("solver_s"), "checks": o.get("checks_total")} for o in (proved + bounded + failed_obs)][:400],
            "undecided": [list(x) for x in undecided],
            "known_findings_matched": [f.get("what") for _, f in known],
            "known_finding_obligations": [o["id"] for o, _ in known],
        },
        "assumptions": trusted,
        "wall_s": round(wall, 2),
        "violations": len(violations),
    }
    # generic keys (required for a non-proof level; informative otherwise): one "evaluation" = one obligation handed to a back end
    ev["coverage"]["evaluations"] = len(proved) + len(bounded) + len(failed_obs)
    ev["coverage"]["distinct_nontrivial"] = len({o["id"] for o in proved + bounded})
    ev["coverage"]["rule"] = ("one case = one named obligation (a Verus ensures-clause / lemma / safety obligation, or one Kani harness over symbolic inputs) "
                              "generated from /repo's current source; counted as non-trivial when the back end discharged it with its reachability covers satisfied "
                              "and the unit's vacuity canary (where present) was rejected; ids are distinct by construction")
    json.dump(ev, open(os.path.join(EVID, f"{prop}.json"), "w"), indent=1)
    log(f"[{prop}] proved={len(proved)} bounded={len(bounded)} failed={len(failed_obs)} known={len(known)} undecided={len(undecided)} wall={wall:.1f}s")
    if violations:
        return 1
    if undecided:
        return 2
    return 0


def main():
    a = sys.argv[1:]
    tier = os.environ.get("VERIF_TIER", "quick")
    if "--tier" in a:
        tier = a[a.index("--tier") + 1]
    if a[0] == "check":
        sys.exit(check(a[1], tier))
    if a[0] == "unit":
        u = load_unit(a[1])
        r = run_unit(u, tier)
        for o in r["obligations"]:
            print(o["status"].upper().ljust(11), o["id"], "|", (o.get("clause") or "")[:90], "|", o.get("wall_s", ""))
            if o["status"] != "discharged":
                for d in o["detail"]:
                    print("      ", d.get("kind"), d.get("msg", "")[:300], d.get("text", ""), d.get("at", ""))
                if o.get("witness_bytes") is not None:
                    print("       witness:", o["witness_bytes"], "native replay:", (o.get("native_replay") or {}).get("confirmed"))
        print("status:", r["status"], "wall", r.get("wall_s"), "canary", r.get("canary"))
        for n in r["notes"]:
            print("note:", n[:3000])
        sys.exit(0 if r["status"] == "ok" and all(o["status"] == "discharged" for o in r["obligations"]) else 1)
    if a[0] == "replay":
        rep = json.load(open(a[1]))
        print(json.dumps({k: rep[k] for k in ("property", "obligation", "function", "clause", "verifier_output")}, indent=1))
        nr = rep.get("native_replay")
        if nr and nr.get("cmd") and os.path.exists(nr.get("file", "")):
            env = dict(os.environ); env["RUSTFLAGS"] = "--edition 2021"
            r = run_cmd(nr["cmd"].split(), cwd=os.path.dirname(nr["file"]), timeout=300, env=env)
            print(r["out"][-3000:], r["err"][-2000:])
        ur = rep.get("real_code_replay")
        if ur:
            print(json.dumps(ur, indent=1))
        sys.exit(0)


if __name__ == "__main__":
    main()
