#!/bin/bash
# usage: seedtest.sh <patch.diff> <prop> [<prop>...]  -- applies a seeded change to /repo, runs checks, reverts
P=$1; shift
cd /repo || exit 9
git diff --quiet || { echo "/repo dirty"; exit 9; }
if ! git apply "$P" 2>/dev/null; then
  git apply --3way "$P" 2>/dev/null; git reset -q
  if [ -n "$(grep -rl '^<<<<<<<' crates cmds bindings 2>/dev/null)" ]; then echo "APPLY-FAILED $P"; git checkout -q -- .; exit 8; fi
fi
echo "== applied $P: $(git diff --stat | tail -1)"
cd /verif
for p in "$@"; do
  VERIF_KANI_JOBS=${VERIF_KANI_JOBS:-6} ./check $p --tier quick 2>&1 | grep -E "VIOLATION|failed obligation|UNDECIDED|KNOWN-FINDING|proved=" | cut -c1-300
  echo "   -> $p rc=${PIPESTATUS[0]}"
done
git -C /repo checkout -q -- .
